package main

// Replay of solver models against the real code: an in-package test is
// injected with `go test -overlay` (nothing is written into /repo).

import (
	"bytes"
	"encoding/json"
	"fmt"
	"go/types"
	"os"
	"os/exec"
	"path/filepath"
	"sort"
	"strconv"
	"strings"
)

type replayRecord struct {
	Property   string            `json:"property"`
	Obligation string            `json:"obligation"`
	Desc       string            `json:"desc"`
	Pos        string            `json:"pos"`
	Status     string            `json:"status"`
	Solver     string            `json:"solver"`
	SolverOut  string            `json:"solver_output"`
	Model      map[string]string `json:"model,omitempty"`
	GoTest     string            `json:"go_test,omitempty"`
	RunOutput  string            `json:"run_output,omitempty"`
	Verdict    string            `json:"verdict"`
	Note       string            `json:"note,omitempty"`
}

func (e *Engine) writeReplayFile(id string, r Result, verif string, rec *replayRecord, note string) string {
	if rec == nil {
		rec = &replayRecord{}
	}
	rec.Property = id
	rec.Obligation = r.O.Name
	rec.Desc = r.O.Desc
	rec.Pos = r.O.Pos
	rec.Status = r.V.Status
	rec.Solver = r.V.Solver
	rec.SolverOut = truncate(r.V.Output, 4000)
	if rec.Note == "" {
		rec.Note = note
	}
	if rec.Verdict == "" {
		rec.Verdict = "no-failing-input-found"
	}
	dir := filepath.Join(verif, "replays", id)
	os.MkdirAll(dir, 0o755)
	path := filepath.Join(dir, sanitizeFile(r.O.Name)+".json")
	data, _ := json.MarshalIndent(rec, "", " ")
	os.WriteFile(path, data, 0o644)
	return path
}

// parseModel reads the (get-value ...) answer: ((t1 v1) (t2 v2) ...).
func parseModel(out string) []string {
	i := strings.Index(out, "\n")
	if i < 0 {
		return nil
	}
	body := strings.TrimSpace(out[i+1:])
	// keep only the first balanced s-expression
	depth := 0
	end := -1
	inBar := false
	for k, c := range body {
		if c == '|' {
			inBar = !inBar
		}
		if inBar {
			continue
		}
		if c == '(' {
			depth++
		} else if c == ')' {
			depth--
			if depth == 0 {
				end = k
				break
			}
		}
	}
	if end < 0 {
		return nil
	}
	pairs := splitSexp("(x " + body[1:end] + ")")
	if pairs == nil {
		return nil
	}
	var vals []string
	for _, p := range pairs[1:] {
		kv := splitSexp("(x " + strings.TrimSpace(p[1:len(p)-1]) + ")")
		if len(kv) != 3 {
			return nil
		}
		vals = append(vals, kv[2])
	}
	return vals
}

// smtIntLit parses an SMT integer literal ("5", "(- 5)").
func smtIntLit(s string) (string, bool) {
	s = strings.TrimSpace(s)
	if strings.HasPrefix(s, "(-") {
		inner := strings.TrimSpace(s[2 : len(s)-1])
		if v, ok := smtIntLit(inner); ok {
			if strings.HasPrefix(v, "-") {
				return v[1:], true
			}
			return "-" + v, true
		}
		return "", false
	}
	for _, c := range s {
		if c < '0' || c > '9' {
			return "", false
		}
	}
	return s, s != ""
}

// goLiteral turns an SMT value of Go type t into a Go expression usable in a
// test living in package `in`. ok=false when the type is outside the replay subset.
func (e *Engine) goLiteral(val string, t types.Type, in *types.Package) (string, bool) {
	qual := func(p *types.Package) string {
		if p == in {
			return ""
		}
		if e.litImports != nil {
			e.litImports[p.Path()] = true
		}
		return p.Name()
	}
	tn := types.TypeString(t, qual)
	switch u := t.Underlying().(type) {
	case *types.Basic:
		switch {
		case u.Info()&types.IsBoolean != 0:
			return tn + "(" + val + ")", val == "true" || val == "false"
		case u.Info()&types.IsInteger != 0:
			v, ok := smtIntLit(val)
			return tn + "(" + v + ")", ok
		case u.Info()&types.IsString != 0:
			if strings.HasPrefix(val, "\"") {
				return tn + "(" + smtStringToGo(val) + ")", true
			}
			return "", false
		}
		return "", false
	case *types.Struct:
		parts := splitSexp(val)
		if u.NumFields() == 0 {
			return tn + "{}", true
		}
		if parts == nil || len(parts) != u.NumFields()+1 {
			return "", false
		}
		named, _ := t.(*types.Named)
		samePkg := named != nil && named.Obj().Pkg() == in
		var fs []string
		for i := 0; i < u.NumFields(); i++ {
			f := u.Field(i)
			if !f.Exported() && !samePkg {
				// known constructors
				if named != nil && named.Obj().Pkg() != nil && named.Obj().Pkg().Path() == "github.com/invopop/gobl/num" {
					switch named.Obj().Name() {
					case "Amount":
						v, ok1 := smtIntLit(parts[1])
						x, ok2 := smtIntLit(parts[2])
						return fmt.Sprintf("num.MakeAmount(%s, %s)", v, x), ok1 && ok2
					case "Percentage":
						ap := splitSexp(parts[1])
						if len(ap) == 3 {
							v, ok1 := smtIntLit(ap[1])
							x, ok2 := smtIntLit(ap[2])
							return fmt.Sprintf("num.MakePercentage(%s, %s)", v, x), ok1 && ok2
						}
					}
				}
				return "", false
			}
			fv, ok := e.goLiteral(parts[i+1], f.Type(), in)
			if !ok {
				return "", false
			}
			fs = append(fs, f.Name()+": "+fv)
		}
		return tn + "{" + strings.Join(fs, ", ") + "}", true
	}
	return "", false
}

func smtStringToGo(s string) string {
	// SMT-LIB string literal: "" is an escaped quote, \u{XX} escapes
	inner := s[1 : len(s)-1]
	inner = strings.ReplaceAll(inner, "\"\"", "\"")
	var b strings.Builder
	b.WriteByte('"')
	for i := 0; i < len(inner); i++ {
		if strings.HasPrefix(inner[i:], "\\u{") {
			j := strings.Index(inner[i:], "}")
			if j > 0 {
				var code int
				fmt.Sscanf(inner[i+3:i+j], "%x", &code)
				fmt.Fprintf(&b, "\\x%02x", code&0xff)
				i += j
				continue
			}
		}
		c := inner[i]
		if c == '"' || c == '\\' {
			b.WriteByte('\\')
			b.WriteByte(c)
		} else if c < 32 || c > 126 {
			fmt.Fprintf(&b, "\\x%02x", c)
		} else {
			b.WriteByte(c)
		}
	}
	b.WriteByte('"')
	return b.String()
}

// smtPrinter returns a Go expression (string-typed) that renders the Go value
// expression `x` of type t as an SMT term at run time.
func (g *FuncGen) smtPrinter(x string, t types.Type, in *types.Package) (string, bool) {
	switch u := t.Underlying().(type) {
	case *types.Basic:
		switch {
		case u.Info()&types.IsBoolean != 0:
			return fmt.Sprintf("fmt.Sprintf(\"%%t\", bool(%s))", x), true
		case u.Info()&types.IsInteger != 0:
			if u.Info()&types.IsUnsigned != 0 {
				return fmt.Sprintf("fmt.Sprintf(\"%%d\", uint64(%s))", x), true
			}
			return fmt.Sprintf("goblvcInt(int64(%s))", x), true
		case u.Info()&types.IsString != 0:
			return fmt.Sprintf("goblvcStr(string(%s))", x), true
		}
		return "", false
	case *types.Struct:
		named, _ := t.(*types.Named)
		samePkg := named != nil && named.Obj().Pkg() == in
		if u.NumFields() == 0 {
			return fmt.Sprintf("%q", g.w.ctor(t)), true
		}
		var parts []string
		for i := 0; i < u.NumFields(); i++ {
			f := u.Field(i)
			if !f.Exported() && !samePkg {
				if named != nil && named.Obj().Pkg() != nil && named.Obj().Pkg().Path() == "github.com/invopop/gobl/num" {
					switch named.Obj().Name() {
					case "Amount":
						return fmt.Sprintf("(\"(|mk:num.Amount| \" + goblvcInt(%s.Value()) + \" \" + fmt.Sprintf(\"%%d\", %s.Exp()) + \")\")", x, x), true
					case "Percentage":
						return fmt.Sprintf("(\"(|mk:num.Percentage| (|mk:num.Amount| \" + goblvcInt(%s.Value()) + \" \" + fmt.Sprintf(\"%%d\", %s.Exp()) + \"))\")", x, x), true
					}
				}
				return "", false
			}
			p, ok := g.smtPrinter(x+"."+f.Name(), f.Type(), in)
			if !ok {
				return "", false
			}
			parts = append(parts, p)
		}
		return fmt.Sprintf("(\"(%s \" + %s + \")\")", strings.ReplaceAll(g.w.ctor(t), "\"", "\\\""), strings.Join(parts, " + \" \" + ")), true
	case *types.Interface:
		// only nil-ness is observable for the contracts (errors)
		return fmt.Sprintf("goblvcIface(%s == nil)", x), true
	}
	return "", false
}

// replay tries to confirm a refuted obligation on the real code.
func (e *Engine) replay(id string, r Result, verif string) (string, bool) {
	g := r.O.Gen
	rec := &replayRecord{}
	if g.fn == nil || g.c == nil {
		return e.writeReplayFile(id, r, verif, rec, "lemma or contract-less obligation: no executable to replay"), false
	}
	vals := parseModel(r.V.Output)
	var names []string
	for n := range g.paramTerms {
		names = append(names, n)
	}
	sort.Strings(names)
	if vals == nil || len(vals) < len(names) {
		return e.writeReplayFile(id, r, verif, rec, "model not available or not parsable"), false
	}
	model := map[string]string{}
	for i, n := range names {
		model[n] = vals[i]
	}
	// byte-level string model: rebuild each string parameter from its length
	// and leading bytes (as an SMT string literal, which goLiteral understands)
	if extra := vals[len(names):]; len(extra) > 0 {
		k := 0
		for _, n := range names {
			v := g.paramTerms[n]
			if v.Type == nil || !isStringType(v.Type) || g.w.useStrings {
				continue
			}
			if k+1+strModelBytes > len(extra) {
				break
			}
			ln, ok := smtIntLit(extra[k])
			var n64 int
			fmt.Sscanf(ln, "%d", &n64)
			if ok && n64 >= 0 && n64 <= strModelBytes {
				bs := make([]byte, 0, n64)
				for j := 0; j < n64; j++ {
					bv, _ := smtIntLit(extra[k+1+j])
					var c int
					fmt.Sscanf(bv, "%d", &c)
					bs = append(bs, byte(c))
				}
				model[n] = smtStringLit(string(bs))
			}
			k += 1 + strModelBytes
		}
	}
	rec.Model = model
	fn := g.fn
	in := fn.Pkg.Pkg
	// contract-level names of the real parameters, in order
	var cnames []string
	if g.c.Recv != "" {
		cnames = append(cnames, g.c.Recv)
	}
	cnames = append(cnames, g.c.Params...)
	var argExprs []string
	e.litImports = map[string]bool{}
	for i, p := range fn.Params {
		lit, ok := e.goLiteral(model[cnames[i]], p.Type(), in)
		if !ok {
			if path, confirmed, handled := e.replayHeap(id, r, verif, rec); handled {
				return path, confirmed
			}
			return e.writeReplayFile(id, r, verif, rec, fmt.Sprintf("parameter %s of type %s is outside the automatic replay subset (heap-shaped input)", cnames[i], p.Type())), false
		}
		argExprs = append(argExprs, lit)
	}
	sig := fn.Signature
	var call string
	if sig.Recv() != nil {
		call = fmt.Sprintf("(%s).%s(%s)", argExprs[0], fn.Name(), strings.Join(argExprs[1:], ", "))
	} else {
		call = fmt.Sprintf("%s(%s)", fn.Name(), strings.Join(argExprs, ", "))
	}
	nres := sig.Results().Len()
	var lhs []string
	var prints []string
	for i := 0; i < nres; i++ {
		lhs = append(lhs, fmt.Sprintf("r%d", i))
		p, ok := g.smtPrinter(fmt.Sprintf("r%d", i), sig.Results().At(i).Type(), in)
		if !ok {
			return e.writeReplayFile(id, r, verif, rec, fmt.Sprintf("result %d of type %s is outside the automatic replay subset", i, sig.Results().At(i).Type())), false
		}
		prints = append(prints, fmt.Sprintf("\tfmt.Printf(\"GOBLVC-RESULT %d %%s\\n\", %s)", i, p))
	}
	imports := map[string]bool{"fmt": true, "testing": true}
	for k := range e.litImports {
		imports[k] = true
	}
	for _, a := range argExprs {
		if strings.Contains(a, "num.Make") && in.Path() != "github.com/invopop/gobl/num" {
			imports["github.com/invopop/gobl/num"] = true
		}
	}
	var src bytes.Buffer
	fmt.Fprintf(&src, "package %s\n\nimport (\n", in.Name())
	var imps []string
	for k := range imports {
		imps = append(imps, k)
	}
	sort.Strings(imps)
	for _, k := range imps {
		fmt.Fprintf(&src, "\t%q\n", k)
	}
	src.WriteString(")\n\n")
	src.WriteString("func goblvcInt(v int64) string {\n\tif v < 0 {\n\t\treturn \"(- \" + fmt.Sprintf(\"%d\", uint64(-(v+1))+1) + \")\"\n\t}\n\treturn fmt.Sprintf(\"%d\", v)\n}\n")
	src.WriteString("func goblvcStr(s string) string {\n\tout := \"\\\"\"\n\tfor i := 0; i < len(s); i++ {\n\t\tc := s[i]\n\t\tif c == '\"' {\n\t\t\tout += \"\\\"\\\"\"\n\t\t} else if c >= 32 && c < 127 && c != '\\\\' {\n\t\t\tout += string(rune(c))\n\t\t} else {\n\t\t\tout += fmt.Sprintf(\"\\\\u{%x}\", c)\n\t\t}\n\t}\n\treturn out + \"\\\"\"\n}\n")
	src.WriteString("func goblvcIface(isNil bool) string {\n\tif isNil {\n\t\treturn \"nil_iface\"\n\t}\n\treturn \"(mk_iface 1 1)\"\n}\n")
	src.WriteString("var _ = goblvcStr\nvar _ = goblvcIface\nvar _ = goblvcInt\n\n")
	src.WriteString("func TestGoblvcReplay(t *testing.T) {\n")
	src.WriteString("\tdefer func() {\n\t\tif r := recover(); r != nil {\n\t\t\tfmt.Printf(\"GOBLVC-PANIC %v\\n\", r)\n\t\t}\n\t}()\n")
	if nres > 0 {
		fmt.Fprintf(&src, "\t%s := %s\n", strings.Join(lhs, ", "), call)
	} else {
		fmt.Fprintf(&src, "\t%s\n", call)
	}
	for _, p := range prints {
		src.WriteString(p + "\n")
	}
	src.WriteString("\tfmt.Println(\"GOBLVC-DONE\")\n}\n")
	rec.GoTest = src.String()

	out, err := e.runInjectedTest(fn.Pkg.Pkg.Path(), src.String())
	rec.RunOutput = truncate(out, 4000)
	if err != nil && !strings.Contains(out, "GOBLVC-") {
		return e.writeReplayFile(id, r, verif, rec, "replay build/run failed: "+err.Error()), false
	}
	if strings.Contains(out, "GOBLVC-PANIC") {
		rec.Verdict = "confirmed: the real code panics on the model's input"
		return e.writeReplayFile(id, r, verif, rec, ""), true
	}
	// evaluate every ensures clause on (inputs, observed outputs)
	results := map[int]string{}
	for _, l := range strings.Split(out, "\n") {
		if strings.HasPrefix(l, "GOBLVC-RESULT ") {
			var idx int
			rest := strings.TrimPrefix(l, "GOBLVC-RESULT ")
			k := strings.Index(rest, " ")
			fmt.Sscanf(rest[:k], "%d", &idx)
			results[idx] = strings.TrimSpace(rest[k+1:])
		}
	}
	if len(results) != nres {
		return e.writeReplayFile(id, r, verif, rec, "replay produced no result lines"), false
	}
	violated, detail, err2 := e.evalPostConcrete(g, model, cnames, results)
	if err2 != nil {
		return e.writeReplayFile(id, r, verif, rec, "concrete evaluation failed: "+err2.Error()), false
	}
	if violated {
		rec.Verdict = "confirmed: on the model's input the real code returns " + fmt.Sprint(results) + ", which violates: " + detail
		return e.writeReplayFile(id, r, verif, rec, ""), true
	}
	rec.Verdict = "not confirmed: the real code satisfies every ensures clause on this input (model is an artefact of an over-approximation, or the failed obligation is a safety/overflow side condition)"
	return e.writeReplayFile(id, r, verif, rec, ""), false
}

// evalPostConcrete evaluates the contract's ensures clauses with every
// parameter and result replaced by its concrete value.
func (e *Engine) evalPostConcrete(orig *FuncGen, model map[string]string, cnames []string, results map[int]string) (bool, string, error) {
	g := e.NewFuncGen(orig.fn, orig.c)
	g.w = orig.w
	g.entryHeap = g.newHeap(hEntry)
	g.alloc0 = g.heapGet(g.entryHeap, "$alloc", "Int")
	g.ownMod = map[string]bool{}
	g.paramTerms = map[string]Val{}
	env := &Env{g: g, vars: map[string]Val{}, heap: g.entryHeap, old: g.entryHeap, pkg: g.pkg}
	concStr := func(v string, t types.Type) string {
		if !g.w.useStrings && isStringType(t) && strings.HasPrefix(v, "\"") {
			if gs, err := strconv.Unquote(smtStringToGo(v)); err == nil {
				g.w.fullBytes[gs] = true
				return g.w.StrLit(gs)
			}
		}
		return v
	}
	for i, p := range orig.fn.Params {
		env.vars[cnames[i]] = Val{concStr(model[cnames[i]], p.Type()), p.Type()}
		g.paramTerms[cnames[i]] = env.vars[cnames[i]]
	}
	env.entryVars = g.paramTerms
	for _, l := range orig.c.Lets {
		v, err := g.eval(l.Expr, env)
		if err != nil {
			return false, "", err
		}
		env.vars[l.Name] = v
	}
	sig := orig.fn.Signature
	for i, n := range orig.c.Results {
		if i < sig.Results().Len() {
			env.vars[n] = Val{concStr(results[i], sig.Results().At(i).Type()), sig.Results().At(i).Type()}
		}
	}
	sv := NewSolver(filepath.Join(e.verif, ".cache"), 20, 4)
	sv.noCache = true
	defer sv.Close()
	for _, cl := range orig.c.Ensures {
		t, err := g.evalBool(cl.Expr, env)
		if err != nil {
			return false, "", err
		}
		o := &Obligation{Name: "replay-eval", Guard: "true", Goal: t, Gen: g}
		q := g.QueryPart(o, 0, false)
		v := sv.Solve(q, "")
		if v.Status == "sat" {
			return true, "ensures " + cl.Src, nil
		}
	}
	return false, "", nil
}

// runInjectedTest runs `go test` on pkgPath with an extra in-package test file
// supplied through -overlay (plus the selftest mutation overlay, if any).
func (e *Engine) runInjectedTest(pkgPath, src string) (string, error) {
	rel := strings.TrimPrefix(pkgPath, "github.com/invopop/gobl")
	rel = strings.TrimPrefix(rel, "/")
	dir := filepath.Join(e.repo, rel)
	tmp, err := os.MkdirTemp("", "goblvc-replay")
	if err != nil {
		return "", err
	}
	defer os.RemoveAll(tmp)
	testFile := filepath.Join(tmp, "zz_goblvc_replay_test.go")
	if err := os.WriteFile(testFile, []byte(src), 0o644); err != nil {
		return "", err
	}
	ov := map[string]map[string]string{"Replace": {filepath.Join(dir, "zz_goblvc_replay_test.go"): testFile}}
	k := 0
	for path, data := range e.overlay {
		k++
		mf := filepath.Join(tmp, fmt.Sprintf("mut%d.go", k))
		os.WriteFile(mf, data, 0o644)
		ov["Replace"][path] = mf
	}
	ovData, _ := json.Marshal(ov)
	ovFile := filepath.Join(tmp, "ov.json")
	os.WriteFile(ovFile, ovData, 0o644)
	cmd := exec.Command("go", "test", "-tags", "verif", "-overlay", ovFile, "-vet=off", "-count=1", "-timeout", "60s", "-run", "^TestGoblvcReplay$", "-v", ".")
	cmd.Dir = dir
	cmd.Env = append(os.Environ(), "GOFLAGS=-mod=mod", "GOPROXY=off", "GOSUMDB=off", "GOTOOLCHAIN=local")
	var out bytes.Buffer
	cmd.Stdout = &out
	cmd.Stderr = &out
	err = cmd.Run()
	return out.String(), err
}
