package main

// Calls: builtins, callees under contract (requires proved, modifies
// havocked, ensures assumed), abstracted callees.

import (
	"fmt"
	"go/token"
	"go/types"
	"strings"

	"golang.org/x/tools/go/ssa"
)

func (g *FuncGen) execCall(x *ssa.Call, st *State) error {
	com := x.Common()
	pos := g.posOf(x)
	if b, ok := com.Value.(*ssa.Builtin); ok {
		return g.execBuiltin(x, b, st)
	}
	c, callee := g.eng.contractForCall(com)
	sig := com.Signature()
	// devirtualisation: an interface parameter verified for one dynamic type
	devirt := false
	if com.IsInvoke() && g.dynTypes != nil {
		if dt, ok := g.dynTypes[g.val(com.Value)]; ok {
			if m := g.eng.prog.LookupMethod(dt, com.Method.Pkg(), com.Method.Name()); m != nil {
				callee = m
				c = g.eng.cs.Funcs[m.String()]
				devirt = true
			}
		}
	}
	// ghost assertions of the enclosing contract, in the state just before this call
	if g.depth == 0 && g.c != nil && callee != nil {
		for _, ac := range g.c.AtCalls {
			if strings.HasSuffix(shortKey(callee.String()), ac.Callee) {
				env := &Env{g: g, vars: map[string]Val{}, heap: st.heap, old: g.entryHeap, pkg: g.pkg, entryVars: g.paramTerms}
				for k, v := range g.paramTerms {
					env.vars[k] = v
				}
				// named locals whose definition dominates the call
				blk := x.Block()
				for name, defs := range g.debugRef {
					if _, isParam := env.vars[name]; isParam {
						continue
					}
					var best *debugDef
					for i := range defs {
						d := &defs[i]
						if d.addr {
							continue
						}
						if d.block.Dominates(blk) && (d.block != blk || d.pos < x.Pos()) {
							if best == nil || best.block.Dominates(d.block) {
								best = d
							}
						}
					}
					if best != nil {
						if _, isAddr := g.addrs[best.v]; !isAddr {
							if _, known := g.vals[best.v]; known {
								env.vars[name] = Val{g.val(best.v), best.v.Type()}
							}
						}
					}
				}
				// a variable assigned on several paths is a phi at the join: the innermost
				// dominating phi carrying the variable's name is its value here, unless a
				// plain definition comes after it
				cand := map[string]*ssa.Phi{}
				for _, b := range g.fn.Blocks {
					if !b.Dominates(blk) {
						continue
					}
					for _, ins := range b.Instrs {
						phi, ok := ins.(*ssa.Phi)
						if !ok {
							break
						}
						if phi.Comment == "" {
							continue
						}
						if _, isParam := g.paramTerms[phi.Comment]; isParam {
							continue
						}
						if _, known := g.vals[phi]; !known {
							continue
						}
						if c, ok := cand[phi.Comment]; !ok || c.Block().Dominates(b) {
							cand[phi.Comment] = phi
						}
					}
				}
				for name, phi := range cand {
					laterDef := false
					for _, d := range g.debugRef[name] {
						if d.addr || !d.block.Dominates(blk) || (d.block == blk && d.pos >= x.Pos()) {
							continue
						}
						if phi.Block().Dominates(d.block) {
							laterDef = true // same block: phis come first
						}
					}
					if !laterDef {
						env.vars[name] = Val{g.val(phi), phi.Type()}
					}
				}
				// the call's own arguments (receiver first): $arg0, $arg1, ...
				for i, a := range com.Args {
					env.vars[fmt.Sprintf("$arg%d", i)] = Val{g.valOrAddr(a, st), a.Type()}
				}
				t, err := g.evalBool(ac.Clause.Expr, env)
				if err != nil {
					return fmt.Errorf("%s: at-call %s: %v", g.fname, ac.Callee, err)
				}
				g.oblige("assert", ac.Clause.Label, st.reach, t, "before the call to "+ac.Callee+": "+ac.Clause.Src, pos)
			}
		}
	}
	// argument terms (receiver first for invoke)
	var args []string
	var argTypes []types.Type
	if com.IsInvoke() && devirt {
		recv := g.val(com.Value)
		dt := g.dynTypes[recv]
		args = append(args, g.w.Unbox(dt, fmt.Sprintf("(i_val %s)", recv)))
		argTypes = append(argTypes, dt)
	} else if com.IsInvoke() {
		recv := g.val(com.Value)
		g.check(st, "safe.nilcall", fmt.Sprintf("(not (= (i_typ %s) 0))", recv), "method call on nil interface: "+com.Method.Name(), pos)
		args = append(args, recv)
		argTypes = append(argTypes, com.Value.Type())
	}
	for _, a := range com.Args {
		args = append(args, g.valOrAddr(a, st))
		argTypes = append(argTypes, a.Type())
	}
	// pointer-receiver method call on a nil pointer is legal in Go; the
	// dereference inside is the callee's concern (its requires).
	// results
	nres := sig.Results().Len()
	var res []string
	for i := 0; i < nres; i++ {
		rt := sig.Results().At(i).Type()
		res = append(res, g.freshConst(fmt.Sprintf("call:%s.r%d", x.Name(), i), g.w.SortOf(rt)))
	}
	setResult := func() {
		if nres == 1 {
			if t, ok := g.vals[x]; ok && t == res[0] {
				return
			}
			g.define(x, res[0])
		} else if nres > 1 {
			g.tuples[x] = res
		}
	}
	hasAssumedFrame := false
	if c == nil && callee != nil && g.rootC != nil {
		for i := range g.rootC.AssumeFrames {
			if calleeMatches(callee.String(), g.rootC.AssumeFrames[i].Callee) {
				hasAssumedFrame = true
			}
		}
	}
	if c == nil && callee != nil && !hasAssumedFrame && !g.eng.isKnownPure(com) && g.canInline(callee) {
		if rs, ok := g.inlineCall(callee, args, com.Args, st); ok {
			g.inlined[shortKey(callee.String())] = true
			if nres == 1 {
				g.define(x, rs[0])
			} else if nres > 1 {
				g.tuples[x] = rs
			}
			return nil
		}
		// the loop analysis counted on this helper being executed in place (its writes
		// entered the loop's modified set): falling back to a havoc would not be covered
		for _, li := range g.loopList {
			if li.body[x.Block()] {
				g.bail("helper %s could not be executed in place inside a loop", callee.String())
			}
		}
	}
	if c == nil {
		name := "dynamic call"
		if callee != nil {
			name = callee.String()
		} else if com.IsInvoke() {
			name = "invoke " + com.Method.FullName()
		}
		pure := g.eng.isKnownPure(com)
		var af *AssumeFrame
		if !pure && g.rootC != nil {
			for i := range g.rootC.AssumeFrames {
				a := &g.rootC.AssumeFrames[i]
				if (a.Callee == "$dynamic" && callee == nil && !com.IsInvoke()) || (callee != nil && calleeMatches(callee.String(), a.Callee)) {
					af = a
				}
			}
		}
		if af != nil {
			// assumed frame (listed): only these maps, and there only the footprint objects
			mods, err := g.resolveModNames(af.Modifies, g.pkg)
			if err != nil {
				return fmt.Errorf("%s: assume-frame %s: %v", g.fname, af.Callee, err)
			}
			g.assumptions["assumed frame of the call to "+name+" in "+g.fname+": "+af.Src] = true
			g.abstract("call without contract: " + name + " (assumed frame)")
			if !g.modifiesAll {
				for _, m := range mods {
					if !g.ownMod[m] && m != "$alloc" {
						g.oblige("frame.call", "assumed:"+m, st.reach, "false", "assumed frame of "+name+" includes "+m+", which is outside the caller's modifies set", pos)
					}
				}
			}
			env := g.entryEnv()
			env.heap = st.heap
			var items []Val
			for _, fe := range af.Footprint {
				v, err := g.eval(fe, env)
				if err != nil {
					return fmt.Errorf("%s: assume-frame %s: footprint %s: %v", g.fname, af.Callee, fe, err)
				}
				items = append(items, v)
			}
			preHeap := st.heap
			if mods == nil {
				mods = []string{} // nothing but allocation
			}
			hv := g.heapHavoc(st.heap, mods)
			hv.noFrame = true
			st.heap = hv
			nrF := g.newReach(st.reach)
			g.assert(fmt.Sprintf("(=> %s (>= %s %s))", nrF, g.allocTerm(st.heap), g.allocTerm(preHeap)))
			if len(items) > 0 {
				for _, m := range mods {
					srt := g.eng.sortOfMap(g, m)
					if srt == "" || !(strings.HasPrefix(m, "F:") || strings.HasPrefix(m, "C:") || strings.HasPrefix(m, "G:")) {
						continue
					}
					var fps []string
					for _, it := range items {
						if footprintApplies(it.Type, m) {
							fps = append(fps, g.inFootprint(it, "r", preHeap))
						}
					}
					in := "false"
					if len(fps) == 1 {
						in = fps[0]
					} else if len(fps) > 1 {
						in = "(or " + strings.Join(fps, " ") + ")"
					}
					g.assert(fmt.Sprintf("(=> %s (forall ((r Int)) (! (=> (and (not %s) (< r %s)) (= (select %s r) (select %s r))) :pattern ((select %s r)))))", nrF, in, g.allocTerm(preHeap), g.heapGet(st.heap, m, srt), g.heapGet(preHeap, m, srt), g.heapGet(st.heap, m, srt)))
				}
			}
			st.reach = nrF
		} else if !pure {
			g.abstract("call without contract: " + name + " (heap havocked)")
			g.frameCallAll(st, name, pos)
			st.heap = g.heapHavoc(st.heap, nil)
		} else {
			g.abstract("call without contract: " + name + " (assumed heap-pure)")
		}
		nr := g.newReach(st.reach)
		st.reach = nr
		for i := 0; i < nres; i++ {
			g.assumeType(res[i], sig.Results().At(i).Type(), g.allocTerm(st.heap), nr)
		}
		setResult()
		return nil
	}
	g.usedContracts[c.Key] = true
	cpkg := g.eng.pkgOfContract(c)
	// `function`: the result is a function of the arguments only, the same function that
	// contract expressions mean by writing the call
	if c.Function && nres == 1 && len(c.Modifies) == 0 && callee != nil && len(callee.Params) == len(args) {
		uf := q("pure:" + shortKey(c.Key))
		if !g.declared[uf] {
			g.declared[uf] = true
			var ss []string
			for _, p := range callee.Params {
				ss = append(ss, g.w.SortOf(p.Type()))
			}
			g.decls = append(g.decls, fmt.Sprintf("(declare-fun %s (%s) %s)", uf, strings.Join(ss, " "), g.w.SortOf(sig.Results().At(0).Type())))
		}
		res[0] = "(" + uf + " " + strings.Join(args, " ") + ")"
		if len(args) == 0 {
			res[0] = uf
		}
	}
	// bind names
	var cnames []string
	if c.Recv != "" {
		cnames = append(cnames, c.Recv)
	}
	cnames = append(cnames, c.Params...)
	if len(cnames) != len(args) {
		// variadic extern contracts may name fewer params
		if !(sig.Variadic() && len(cnames) <= len(args)) {
			return fmt.Errorf("%s: call to %s: contract names %d parameters, call has %d arguments — contract out of date", g.fname, c.Key, len(cnames), len(args))
		}
	}
	pre := &Env{g: g, vars: map[string]Val{}, heap: st.heap, old: st.heap, pkg: cpkg, calleeAlloc0: g.allocTerm(st.heap)}
	for i, n := range cnames {
		pre.vars[n] = Val{args[i], argTypes[i]}
	}
	for _, l := range c.Lets {
		v, err := g.eval(l.Expr, pre)
		if err != nil {
			return fmt.Errorf("%s: call to %s: let %s: %v", g.fname, c.Key, l.Name, err)
		}
		pre.vars[l.Name] = v
	}
	for i, cl := range c.Requires {
		t, err := g.evalBool(cl.Expr, pre)
		if err != nil {
			return fmt.Errorf("%s: call to %s: requires %s: %v", g.fname, c.Key, cl.Src, err)
		}
		lab := ""
		if cl.Label == "inferred" {
			lab = " [inferred]"
		}
		o := g.oblige("pre", shortKey(c.Key)+fmt.Sprintf(".%d", i+1), st.reach, t, "precondition of "+shortKey(c.Key)+lab+": "+cl.Src, pos)
		_ = o
	}
	samePkg := g.pkg != nil && cpkg != nil && g.pkg.Path() == cpkg.Path()
	for i, cl := range c.Domain {
		t, err := g.evalBool(cl.Expr, pre)
		if err != nil {
			return fmt.Errorf("%s: call to %s: domain %s: %v", g.fname, c.Key, cl.Src, err)
		}
		if samePkg && !g.eng.assumeDomain {
			g.oblige("pre.domain", shortKey(c.Key)+fmt.Sprintf(".%d", i+1), st.reach, t, "domain of "+shortKey(c.Key)+": "+cl.Src, pos)
		} else {
			g.eng.noteAssumption(g, "A-DOMAIN: "+shortKey(c.Key)+": "+cl.Src)
			g.guardAssert(st.reach, t)
		}
	}
	if c.Extern || c.NoVerify {
		g.eng.noteAssumption(g, "assumed contract: "+shortKey(c.Key))
	}
	// frame: callee's modifies against ours
	mods, err := g.resolveModNames(c.Modifies, cpkg)
	if err != nil {
		return fmt.Errorf("%s: call to %s: %v", g.fname, c.Key, err)
	}
	preHeap := st.heap
	if len(mods) > 0 {
		hv := g.heapHavoc(st.heap, mods)
		hv.noFrame = true
		st.heap = hv
	} else {
		// allocation may still happen inside the callee
		hv := g.heapHavoc(st.heap, []string{})
		hv.noFrame = true
		st.heap = hv
	}
	nr := g.newReach(st.reach)
	post := &Env{g: g, vars: map[string]Val{}, heap: st.heap, old: preHeap, pkg: cpkg, calleeAlloc0: g.allocTerm(preHeap)}
	for k, v := range pre.vars {
		post.vars[k] = v
	}
	for i, n := range c.Results {
		if i < nres {
			post.vars[n] = Val{res[i], sig.Results().At(i).Type()}
		}
	}
	for i := 0; i < nres; i++ {
		g.assumeType(res[i], sig.Results().At(i).Type(), g.allocTerm(st.heap), nr)
	}
	// footprint: objects outside it keep their fields in every modified field/cell map
	// (an item only speaks for maps of its own struct type)
	if len(c.Footprint) > 0 {
		var items []Val
		for _, fe := range c.Footprint {
			v, err := g.eval(fe, pre)
			if err != nil {
				return fmt.Errorf("%s: call to %s: footprint %s: %v", g.fname, c.Key, fe, err)
			}
			items = append(items, v)
		}
		for _, m := range mods {
			if m == "*" || m == "$alloc" {
				continue
			}
			srt := g.eng.sortOfMap(g, m)
			if srt != "" && strings.HasPrefix(m, "E:") {
				// element arrays: when the footprint names slices of this element type, only
				// their backing arrays (and arrays allocated by the callee) may change
				var arrs []string
				for _, it := range items {
					if it.Type == nil {
						continue
					}
					if sl, ok := it.Type.Underlying().(*types.Slice); ok && g.elemMap(sl.Elem()).Name == m {
						arrs = append(arrs, fmt.Sprintf("(= r (s_arr %s))", it.Term))
					}
				}
				if len(arrs) > 0 {
					in := arrs[0]
					if len(arrs) > 1 {
						in = "(or " + strings.Join(arrs, " ") + ")"
					}
					after := g.heapGet(st.heap, m, srt)
					before := g.heapGet(preHeap, m, srt)
					g.assert(fmt.Sprintf("(=> %s (forall ((r Int)) (! (=> (and (not %s) (< r %s)) (= (select %s r) (select %s r))) :pattern ((select %s r)))))", nr, in, g.allocTerm(preHeap), after, before, after))
				}
				continue
			}
			if srt == "" || !(strings.HasPrefix(m, "F:") || strings.HasPrefix(m, "C:") || strings.HasPrefix(m, "G:")) {
				continue
			}
			var fps []string
			for _, it := range items {
				if footprintApplies(it.Type, m) {
					fps = append(fps, g.inFootprint(it, "r", pre.heap))
				}
			}
			in := "false"
			if len(fps) == 1 {
				in = fps[0]
			} else if len(fps) > 1 {
				in = "(or " + strings.Join(fps, " ") + ")"
			}
			after := g.heapGet(st.heap, m, srt)
			before := g.heapGet(preHeap, m, srt)
			g.assert(fmt.Sprintf("(=> %s (forall ((r Int)) (! (=> (not %s) (= (select %s r) (select %s r))) :pattern ((select %s r)))))", nr, in, after, before, after))
		}
	}
	for _, cl := range c.Ensures {
		// functional postcondition `r == E` of a heap-independent contract: use E itself as the result
		if nres == 1 && len(c.Results) == 1 && len(mods) == 0 && cl.Expr.Kind == "binop" && cl.Expr.Op == "==" &&
			cl.Expr.Kids[0].Kind == "ident" && cl.Expr.Kids[0].Name == c.Results[0] && !mentions(cl.Expr.Kids[1], c.Results[0]) && heapFree(cl.Expr.Kids[1]) {
			v, err := g.eval(cl.Expr.Kids[1], post)
			if err == nil && len(v.Term) < 400 {
				v2, _ := g.unify(v, Val{"", sig.Results().At(0).Type()})
				if _, seen := g.vals[x]; !seen {
					g.vals[x] = v2.Term
					res[0] = v2.Term
					continue
				}
			}
		}
		if (cl.Label == "bytes" && g.w.useStrings) || (cl.Label == "strings" && !g.w.useStrings) {
			continue // clause written for the other string model
		}
		if g.rootC != nil && g.rootC.Use != nil {
			skip := false
			for suf, labels := range g.rootC.Use {
				if strings.HasSuffix(shortKey(c.Key), suf) {
					skip = true
					for _, l := range labels {
						if l == cl.Label {
							skip = false
						}
					}
				}
			}
			if skip {
				continue
			}
		}
		t, err := g.evalBool(cl.Expr, post)
		if err != nil {
			if strings.Contains(err.Error(), "needs the string theory") {
				continue // string facts are only available to functions verified in string mode
			}
			return fmt.Errorf("%s: call to %s: ensures %s: %v", g.fname, c.Key, cl.Src, err)
		}
		g.assert(fmt.Sprintf("(=> %s %s)", nr, t))
	}
	// frame.call obligations for maps the callee modifies but we may not
	if g.rootC != nil && !g.modifiesAll {
		for _, m := range mods {
			if m == "*" {
				g.oblige("frame.call", shortKey(c.Key), st.reach, "false", "callee may modify anything, caller's modifies set is restricted", pos)
				continue
			}
			if g.ownMod[m] || m == "$alloc" {
				continue
			}
			srt := g.heapSorts[m]
			if srt == "" {
				srt = g.eng.sortOfMap(g, m)
			}
			if srt == "" {
				continue
			}
			after := g.heapGet(st.heap, m, srt)
			before := g.heapGet(preHeap, m, srt)
			goal := fmt.Sprintf("(forall ((r Int)) (=> (< r %s) (= (select %s r) (select %s r))))", g.alloc0, after, before)
			g.oblige("frame.call", shortKey(c.Key)+":"+m, nr, goal, "callee modifies "+m+" which is outside the caller's modifies set: pre-existing objects must be unchanged", pos)
			nr2 := g.newReach(nr)
			g.assert(fmt.Sprintf("(=> %s (forall ((r Int)) (! (=> (< r %s) (= (select %s r) (select %s r))) :pattern ((select %s r)))))", nr2, g.alloc0, after, before, after))
			nr = nr2
		}
	}
	st.reach = nr
	setResult()
	return nil
}

func mentions(n *Node, name string) bool {
	if n == nil {
		return false
	}
	if n.Kind == "ident" && n.Name == name {
		return true
	}
	for _, k := range n.Kids {
		if mentions(k, name) {
			return true
		}
	}
	return false
}

// heapFree: the expression reads no heap (no old, no quantifier, no index);
// conservative syntactic check used only to decide about inlining.
func heapFree(n *Node) bool {
	if n == nil {
		return true
	}
	switch n.Kind {
	case "old", "forall", "exists", "index", "slice":
		return false
	case "unop":
		if n.Op == "*" {
			return false
		}
	}
	for _, k := range n.Kids {
		if !heapFree(k) {
			return false
		}
	}
	return true
}

// canInline: a contract-less helper of /repo whose body is loop-free and small
// is executed in place (its body is its contract); listed in the evidence as inlined.
func (g *FuncGen) canInline(callee *ssa.Function) bool {
	if g.depth >= 3 || len(callee.Blocks) == 0 || callee.Recover != nil || len(callee.Blocks) > 40 {
		return false
	}
	if callee.Pkg == nil || !strings.HasPrefix(callee.Pkg.Pkg.Path(), "github.com/invopop/gobl") {
		return false
	}
	if len(callee.FreeVars) > 0 {
		return false
	}
	n := 0
	for _, b := range callee.Blocks {
		for _, s := range b.Succs {
			if s.Dominates(b) {
				return false // loop
			}
		}
		for _, ins := range b.Instrs {
			n++
			switch ins.(type) {
			case *ssa.Defer, *ssa.Go, *ssa.Select, *ssa.Send, *ssa.MakeClosure, *ssa.Range, *ssa.Next:
				return false
			}
		}
	}
	return n <= 300
}

func (g *FuncGen) inlineCall(callee *ssa.Function, args []string, argVals []ssa.Value, st *State) (results []string, ok bool) {
	g.inlineSeq++
	child := &FuncGen{Core: g.Core, fn: callee, depth: g.depth + 1, prefix: fmt.Sprintf("i%d.", g.inlineSeq)}
	if callee.Pkg != nil {
		child.pkg = callee.Pkg.Pkg
	}
	child.initFrame()
	child.loops = map[*ssa.BasicBlock]*loopInfo{}
	child.edges = map[[2]int]edgeInfo{}
	child.debugRef = map[string][]debugDef{}
	if len(args) != len(callee.Params) {
		return nil, false
	}
	for i, p := range callee.Params {
		child.vals[p] = args[i]
		// an interior pointer (&x.f, &s[i]) keeps denoting that place inside the helper
		if i < len(argVals) {
			if a, isAddr := g.addrs[argVals[i]]; isAddr && a != nil {
				child.addrs[p] = a
			}
		}
	}
	nObl, nAss := len(g.obls), len(g.asserts)
	failed := false
	func() {
		defer func() {
			if r := recover(); r != nil {
				if _, isU := r.(unsupportedErr); isU {
					failed = true
					return
				}
				panic(r)
			}
		}()
		for _, b := range child.rpo() {
			var bst *State
			if b.Index == 0 {
				bst = &State{reach: st.reach, heap: st.heap, locals: map[*ssa.Alloc]string{}}
			} else {
				bst = child.mergeInto(b)
			}
			if bst == nil {
				continue
			}
			if err := child.execBlock(b, bst); err != nil {
				failed = true
				return
			}
		}
	}()
	if failed {
		// discard what the partial execution produced
		g.obls = g.obls[:nObl]
		g.asserts = g.asserts[:nAss]
		return nil, false
	}
	if len(child.returns) == 0 {
		// the helper never returns normally (always panics): nothing flows out
		nr := g.newReach(st.reach)
		g.assert(fmt.Sprintf("(not %s)", nr))
		st.reach = nr
		nres := callee.Signature.Results().Len()
		for i := 0; i < nres; i++ {
			results = append(results, g.freshConst("inl.res", g.w.SortOf(callee.Signature.Results().At(i).Type())))
		}
		return results, true
	}
	nres := callee.Signature.Results().Len()
	if len(child.returns) == 1 {
		r := child.returns[0]
		st.reach = r.reach
		st.heap = r.heap
		return r.results, true
	}
	var conds []string
	var heaps []*Heap
	for _, r := range child.returns {
		conds = append(conds, r.reach)
		heaps = append(heaps, r.heap)
	}
	nr := g.freshConst("reach:inl", "Bool")
	g.assert(fmt.Sprintf("(= %s (or %s))", nr, strings.Join(conds, " ")))
	h := g.newHeap(hMerge)
	h.preds = heaps
	h.conds = conds
	st.reach = nr
	st.heap = h
	for i := 0; i < nres; i++ {
		same := true
		for _, r := range child.returns[1:] {
			if r.results[i] != child.returns[0].results[i] {
				same = false
			}
		}
		if same {
			results = append(results, child.returns[0].results[i])
			continue
		}
		rc := g.freshConst("inl.res", g.w.SortOf(callee.Signature.Results().At(i).Type()))
		for _, r := range child.returns {
			g.assert(fmt.Sprintf("(=> %s (= %s %s))", r.reach, rc, r.results[i]))
		}
		results = append(results, rc)
	}
	return results, true
}

// inFootprint: membership of reference variable r in one footprint item: a
// single object, or (for a slice of pointers) any of its elements.
func (g *FuncGen) inFootprint(v Val, r string, h *Heap) string {
	if v.Type != nil {
		if sl, ok := v.Type.Underlying().(*types.Slice); ok {
			em := g.elemMap(sl.Elem())
			g.nameSeq++
			iv := q(fmt.Sprintf("fi!%d", g.nameSeq))
			return fmt.Sprintf("(exists ((%s Int)) (and (<= 0 %s) (< %s (s_len %s)) (= (select (select %s (s_arr %s)) (sidx %s %s)) %s)))", iv, iv, iv, v.Term, g.heapGet(h, em.Name, em.Sort), v.Term, v.Term, iv, r)
		}
	}
	return fmt.Sprintf("(= %s %s)", r, v.Term)
}

// footprintApplies: does a footprint item of type t (pointer or slice of pointers)
// cover objects stored in heap map m ("F:<struct>.<field>", "C:<type>", "G:<struct>.$x")?
func footprintApplies(t types.Type, m string) bool {
	if t == nil {
		return true
	}
	var elem types.Type
	switch u := t.Underlying().(type) {
	case *types.Pointer:
		elem = u.Elem()
	case *types.Slice:
		if p, ok := u.Elem().Underlying().(*types.Pointer); ok {
			elem = p.Elem()
		}
	}
	if elem == nil {
		return true
	}
	name := typeName(elem)
	switch {
	case strings.HasPrefix(m, "F:"), strings.HasPrefix(m, "G:"):
		rest := m[2:]
		k := strings.LastIndex(rest, ".")
		return k > 0 && rest[:k] == name
	case strings.HasPrefix(m, "C:"):
		return m[2:] == name
	}
	return true
}

// elemFootprintGoal: when the contract's footprint names slices with element map
// emName, a write into array arr of that map must hit one of their backing arrays
// (entry values) or an array allocated during the call. "" when the footprint does
// not restrict this element map.
func (g *FuncGen) elemFootprintGoal(arr, emName string) string {
	var parts []string
	for _, f := range g.ownFootprint {
		if f.Type == nil {
			continue
		}
		if sl, ok := f.Type.Underlying().(*types.Slice); ok && g.elemMap(sl.Elem()).Name == emName {
			parts = append(parts, fmt.Sprintf("(= %s (s_arr %s))", arr, f.Term))
		}
	}
	if len(parts) == 0 {
		return ""
	}
	return fmt.Sprintf("(or (>= %s %s) %s)", arr, g.alloc0, strings.Join(parts, " "))
}

// calleeMatches: does the (possibly generic) function name end in pat?
func calleeMatches(name, pat string) bool {
	n := shortKey(name)
	if k := strings.Index(n, "["); k >= 0 {
		n = n[:k]
	}
	return strings.HasSuffix(n, pat)
}

func shortKey(k string) string {
	return strings.ReplaceAll(strings.ReplaceAll(k, "github.com/invopop/gobl/", ""), "github.com/invopop/", "")
}

// frameCallAll: an abstracted heap-writing call inside a function with a
// restricted modifies set cannot be shown to respect the frame.
func (g *FuncGen) frameCallAll(st *State, name string, pos token.Pos) {
	if g.rootC == nil || g.modifiesAll {
		return
	}
	g.oblige("frame.call", "abstract", st.reach, "false", "abstracted call "+name+" may write the heap", pos)
}

func (g *FuncGen) execBuiltin(x *ssa.Call, b *ssa.Builtin, st *State) error {
	com := x.Common()
	pos := g.posOf(x)
	switch b.Name() {
	case "len":
		a := com.Args[0]
		switch u := a.Type().Underlying().(type) {
		case *types.Slice:
			g.define(x, fmt.Sprintf("(s_len %s)", g.val(a)))
		case *types.Basic:
			g.define(x, fmt.Sprintf("(strlen %s)", g.val(a)))
		case *types.Map:
			ml := g.mapLen(u)
			g.define(x, fmt.Sprintf("(ite (= %s 0) 0 (select %s %s))", g.val(a), g.heapGet(st.heap, ml.Name, ml.Sort), g.val(a)))
			g.assert(fmt.Sprintf("(>= %s 0)", g.val(x)))
		case *types.Array:
			g.define(x, fmt.Sprintf("%d", u.Len()))
		case *types.Pointer:
			if at, ok := u.Elem().Underlying().(*types.Array); ok {
				g.define(x, fmt.Sprintf("%d", at.Len()))
			} else {
				g.bail("len of %s", a.Type())
			}
		default:
			g.bail("len of %s", a.Type())
		}
		return nil
	case "cap":
		a := com.Args[0]
		if _, ok := a.Type().Underlying().(*types.Slice); ok {
			g.define(x, fmt.Sprintf("(s_cap %s)", g.val(a)))
			return nil
		}
		g.bail("cap of %s", a.Type())
	case "append":
		return g.execAppend(x, st)
	case "copy":
		g.abstract("copy (destination elements havocked)")
		if stt, ok := com.Args[0].Type().Underlying().(*types.Slice); ok {
			em := g.elemMap(stt.Elem())
			dst := g.val(com.Args[0])
			if g.rootC != nil && !g.modifiesAll && !g.ownMod[em.Name] && !g.fresh[fmt.Sprintf("(s_arr %s)", dst)] {
				g.oblige("frame.store", "", st.reach, fmt.Sprintf("(or (= (s_len %s) 0) (>= (s_arr %s) %s))", dst, dst, g.alloc0), "copy into a slice outside the modifies set", pos)
			}
			cur := g.heapGet(st.heap, em.Name, em.Sort)
			nv := g.freshConst("H:"+em.Name, em.Sort)
			g.assert(fmt.Sprintf("(forall ((r Int)) (! (=> (not (= r (s_arr %s))) (= (select %s r) (select %s r))) :pattern ((select %s r))))", dst, nv, cur, nv))
			st.heap = g.heapSet(st.heap, em.Name, nv)
		} else {
			st.heap = g.heapHavoc(st.heap, nil)
		}
		g.assert(fmt.Sprintf("(>= %s 0)", g.val(x)))
		return nil
	case "delete":
		mt := com.Args[0].Type().Underlying().(*types.Map)
		m := g.val(com.Args[0])
		k := g.val(com.Args[1])
		md, ml := g.mapDom(mt, nil), g.mapLen(mt)
		if g.rootC != nil && !g.modifiesAll && !g.fresh[m] && !g.ownMod[md.Name] {
			g.oblige("frame.store", "", st.reach, fmt.Sprintf("(or (= %s 0) (>= %s %s))", m, m, g.alloc0), "delete outside modifies set", pos)
		}
		curD := g.heapGet(st.heap, md.Name, md.Sort)
		curL := g.heapGet(st.heap, ml.Name, ml.Sort)
		nd := g.freshConst("H:"+md.Name, md.Sort)
		nl := g.freshConst("H:"+ml.Name, ml.Sort)
		g.assert(fmt.Sprintf("(= %s (ite (= %s 0) %s (store %s %s (store (select %s %s) %s false))))", nd, m, curD, curD, m, curD, m, k))
		g.assert(fmt.Sprintf("(= %s (ite (or (= %s 0) (not (select (select %s %s) %s))) %s (store %s %s (- (select %s %s) 1))))", nl, m, curD, m, k, curL, curL, m, curL, m))
		st.heap = g.heapSet(g.heapSet(st.heap, md.Name, nd), ml.Name, nl)
		return nil
	case "panic":
		g.oblige("safe.panic", "", st.reach, "false", "explicit panic reachable", pos)
		return nil
	case "min", "max":
		if len(com.Args) == 2 && isIntType(x.Type()) {
			f := "imin"
			if b.Name() == "max" {
				f = "imax"
			}
			g.define(x, fmt.Sprintf("(%s %s %s)", f, g.val(com.Args[0]), g.val(com.Args[1])))
			return nil
		}
	case "print", "println":
		return nil
	case "ssa:wrapnilchk":
		g.define(x, g.val(com.Args[0]))
		return nil
	}
	g.bail("builtin %s", b.Name())
	return nil
}

// append(s, t...): writes in place when the capacity allows, otherwise
// returns a fresh array with the prefix copied.
func (g *FuncGen) execAppend(x *ssa.Call, st *State) error {
	com := x.Common()
	pos := g.posOf(x)
	s := g.val(com.Args[0])
	stt, ok := com.Args[0].Type().Underlying().(*types.Slice)
	if !ok {
		g.bail("append to %s", com.Args[0].Type())
	}
	if isStringType(com.Args[1].Type()) {
		g.bail("append(bytes, string...) outside the subset")
	}
	t := g.val(com.Args[1])
	em := g.elemMap(stt.Elem())
	es := g.w.SortOf(stt.Elem())
	cur := g.heapGet(st.heap, em.Name, em.Sort)
	n := fmt.Sprintf("(s_len %s)", t)
	fits := fmt.Sprintf("(<= (+ (s_len %s) %s) (s_cap %s))", s, n, s)
	inPlace := g.freshConst("append.inplace", "Bool")
	// Go appends in place exactly when the capacity suffices (and something is appended or not: no write when n == 0)
	g.assert(fmt.Sprintf("(= %s %s)", inPlace, fits))
	// static number of appended elements, when known
	k := g.staticLen(com.Args[1])
	newArr := g.allocRef(st, "append.arr:"+x.Name())
	delete(g.fresh, newArr) // conditional freshness: only when !inPlace
	res := g.val(x)
	ncap := g.freshConst("append.cap", "Int")
	g.assert(fmt.Sprintf("(>= %s (+ (s_len %s) %s))", ncap, s, n))
	g.assert(fmt.Sprintf("(= %s (ite %s (mk_slice (s_arr %s) (s_off %s) (+ (s_len %s) %s) (s_cap %s)) (ite (= %s 0) %s (mk_slice %s 0 (+ (s_len %s) %s) %s))))",
		res, inPlace, s, s, s, n, s,
		// appending nothing to a slice without room (cap == len) returns s itself
		n, s, newArr, s, n, ncap))
	// frame: in-place write to a pre-existing array
	if g.rootC != nil && !g.modifiesAll && !g.ownMod[em.Name] && !g.fresh[fmt.Sprintf("(s_arr %s)", s)] {
		g.oblige("frame.store", "", st.reach, fmt.Sprintf("(=> (and %s (> %s 0)) (>= (s_arr %s) %s))", inPlace, n, s, g.alloc0), "append writes in place into spare capacity of a slice outside the modifies set ("+em.Name+")", pos)
	}
	if g.rootC != nil && !g.modifiesAll && g.ownMod[em.Name] && !g.fresh[fmt.Sprintf("(s_arr %s)", s)] {
		if goal := g.elemFootprintGoal(fmt.Sprintf("(s_arr %s)", s), em.Name); goal != "" {
			g.oblige("frame.store", "", st.reach, fmt.Sprintf("(=> (and %s (> %s 0)) %s)", inPlace, n, goal), "append writes in place: the array must belong to a footprint slice or be fresh ("+em.Name+")", pos)
		}
	}
	nv := g.freshConst("H:"+em.Name, em.Sort)
	srcArr := fmt.Sprintf("(select %s (s_arr %s))", cur, t)
	dstOld := fmt.Sprintf("(select %s (s_arr %s))", cur, s)
	if k >= 0 && k <= 4 {
		// in place: k stores; fresh: array equal to prefix then k stores
		inp := dstOld
		for j := 0; j < k; j++ {
			inp = fmt.Sprintf("(store %s (sidx %s (+ (s_len %s) %d)) (select %s (sidx %s %d)))", inp, s, s, j, srcArr, t, j)
		}
		fr := g.freshConst("append.newarr", "(Array Int "+es+")")
		g.assert(fmt.Sprintf("(forall ((i Int)) (! (=> (and (<= 0 i) (< i (s_len %s))) (= (select %s i) (select %s (sidx %s i)))) :pattern ((select %s i))))", s, fr, dstOld, s, fr))
		for j := 0; j < k; j++ {
			g.assert(fmt.Sprintf("(= (select %s (+ (s_len %s) %d)) (select %s (sidx %s %d)))", fr, s, j, srcArr, t, j))
		}
		g.assert(fmt.Sprintf("(= %s (ite %s (store %s (s_arr %s) %s) (store %s %s %s)))", nv, inPlace, cur, s, inp, cur, newArr, fr))
	} else {
		na := g.freshConst("append.arr", "(Array Int "+es+")")
		// in place
		g.assert(fmt.Sprintf("(=> %s (forall ((i Int)) (! (= (select %s i) (ite (and (<= (+ (s_off %s) (s_len %s)) i) (< i (+ (s_off %s) (s_len %s) %s))) (select %s (+ (s_off %s) (- i (+ (s_off %s) (s_len %s))))) (select %s i))) :pattern ((select %s i)))))",
			inPlace, na, s, s, s, s, n, srcArr, t, s, s, dstOld, na))
		// fresh
		g.assert(fmt.Sprintf("(=> (not %s) (forall ((i Int)) (! (=> (and (<= 0 i) (< i (+ (s_len %s) %s))) (= (select %s i) (ite (< i (s_len %s)) (select %s (+ (s_off %s) i)) (select %s (+ (s_off %s) (- i (s_len %s))))))) :pattern ((select %s i)))))",
			inPlace, s, n, na, s, dstOld, s, srcArr, t, s, na))
		g.assert(fmt.Sprintf("(= %s (ite %s (store %s (s_arr %s) %s) (store %s %s %s)))", nv, inPlace, cur, s, na, cur, newArr, na))
	}
	st.heap = g.heapSet(st.heap, em.Name, nv)
	g.assumeType(res, x.Type(), g.allocTerm(st.heap), "")
	return nil
}

// staticLen: number of elements of a slice value when syntactically known
// (the varargs pattern `new [k]T; slice t[:]`), else -1.
func (g *FuncGen) staticLen(v ssa.Value) int {
	if sl, ok := v.(*ssa.Slice); ok && sl.Low == nil && sl.High == nil {
		if pt, ok := sl.X.Type().Underlying().(*types.Pointer); ok {
			if at, ok := pt.Elem().Underlying().(*types.Array); ok {
				return int(at.Len())
			}
		}
	}
	if c, ok := v.(*ssa.Const); ok && c.Value == nil {
		return 0
	}
	return -1
}

// ---------- strings ----------

func (g *FuncGen) ufun(name, sig string) string {
	n := q(name)
	if name == "str.byte" {
		return n // declared by the prelude (with the bytes of literals) when used
	}
	if !g.declared[n] {
		g.declared[n] = true
		g.decls = append(g.decls, fmt.Sprintf("(declare-fun %s %s)", n, sig))
	}
	return n
}

func (g *FuncGen) strByte(s, idx string) string {
	g.assumptions["A-STRBYTES: a string is a length and a byte function (slicing, concatenation, short literals and string(asciiByte) axiomatised); range-over-string decodes ASCII bytes exactly and over-approximates all others"] = true
	if g.w.useStrings {
		return fmt.Sprintf("(str.to_code (str.at %s %s))", s, idx)
	}
	return fmt.Sprintf("(%s %s %s)", g.ufun("str.byte", "(Str Int) Int"), s, idx)
}

func (g *FuncGen) strCompare(op, a, b string) string {
	if g.w.useStrings {
		switch op {
		case "<":
			return fmt.Sprintf("(str.< %s %s)", a, b)
		case "<=":
			return fmt.Sprintf("(str.<= %s %s)", a, b)
		case ">":
			return fmt.Sprintf("(str.< %s %s)", b, a)
		default:
			return fmt.Sprintf("(str.<= %s %s)", b, a)
		}
	}
	lt := g.ufun("str.lt", "(Str Str) Bool")
	switch op {
	case "<":
		return fmt.Sprintf("(%s %s %s)", lt, a, b)
	case "<=":
		return fmt.Sprintf("(or (= %s %s) (%s %s %s))", a, b, lt, a, b)
	case ">":
		return fmt.Sprintf("(%s %s %s)", lt, b, a)
	default:
		return fmt.Sprintf("(or (= %s %s) (%s %s %s))", a, b, lt, b, a)
	}
}

// strExt: two strings of the same length and bytes are the same string
// (byte-level model; emitted per compared pair, the inner quantifier is
// existential after negation so no instantiation is needed).
func (g *FuncGen) strExt(a, b string) {
	k := "ext:" + a + "\x00" + b
	if a == b || g.strAx[k] {
		return
	}
	g.strAx[k] = true
	g.assert(fmt.Sprintf("(=> (and (= (strlen %s) (strlen %s)) (forall ((i Int)) (=> (and (<= 0 i) (< i (strlen %s))) (= %s %s)))) (= %s %s))", a, b, a, g.strByte(a, "i"), g.strByte(b, "i"), a, b))
}

func (g *FuncGen) strConcat(a, b string) string {
	if g.w.useStrings {
		return fmt.Sprintf("(str.++ %s %s)", a, b)
	}
	f := g.ufun("str.concat", "(Str Str) Str")
	t := fmt.Sprintf("(%s %s %s)", f, a, b)
	if strings.Contains(t, "|sp:") || strings.Contains(t, "|rp:") {
		g.bail("s_concat/s_substr cannot be used inside a spec function body (use a contract-level let)")
	}
	if g.strAx[t] {
		return t
	}
	g.strAx[t] = true
	g.assert(fmt.Sprintf("(= (strlen %s) (+ (strlen %s) (strlen %s)))", t, a, b))
	// bytes of a concatenation
	bt := g.strByte(t, "i")
	g.assert(fmt.Sprintf("(forall ((i Int)) (! (=> (and (<= 0 i) (< i (strlen %s))) (= %s (ite (< i (strlen %s)) %s %s))) :pattern (%s)))", t, bt, a, g.strByte(a, "i"), g.strByte(b, fmt.Sprintf("(- i (strlen %s))", a)), bt))
	return t
}

func (g *FuncGen) strSubstr(s, lo, hi string) string {
	if g.w.useStrings {
		return fmt.Sprintf("(str.substr %s %s (- %s %s))", s, lo, hi, lo)
	}
	f := g.ufun("str.sub", "(Str Int Int) Str")
	t := fmt.Sprintf("(%s %s %s %s)", f, s, lo, hi)
	if strings.Contains(t, "|sp:") || strings.Contains(t, "|rp:") {
		g.bail("s_concat/s_substr cannot be used inside a spec function body (use a contract-level let)")
	}
	if g.strAx[t] {
		return t
	}
	g.strAx[t] = true
	g.assert(fmt.Sprintf("(= (strlen %s) (- %s %s))", t, hi, lo))
	// bytes of a substring
	bt := g.strByte(t, "i")
	g.assert(fmt.Sprintf("(forall ((i Int)) (! (=> (and (<= 0 i) (< i (- %s %s))) (= %s %s)) :pattern (%s)))", hi, lo, bt, g.strByte(s, fmt.Sprintf("(+ %s i)", lo)), bt))
	g.assert(fmt.Sprintf("(=> (and (= %s 0) (= %s (strlen %s))) (= %s %s))", lo, hi, s, t, s))
	return t
}

// string <-> []byte conversions. With the string theory a byte slice
// converted from/to a string is tied to it element-wise; otherwise abstract.
func (g *FuncGen) execStringConv(x *ssa.Convert, st *State) {
	from, to := x.X.Type(), x.Type()
	v := g.val(x.X)
	if isStringType(from) && isStringType(to) {
		g.define(x, v)
		return
	}
	if sl, ok := to.Underlying().(*types.Slice); ok && isStringType(from) {
		// []byte(s): fresh array holding the bytes of s
		if b, ok := sl.Elem().Underlying().(*types.Basic); ok && b.Kind() == types.Uint8 {
			ref := g.allocRef(st, "bytes:"+x.Name())
			em := g.elemMap(sl.Elem())
			cur := g.heapGet(st.heap, em.Name, em.Sort)
			nv := g.freshConst("H:"+em.Name, em.Sort)
			arr := g.freshConst("bytes.arr", "(Array Int Int)")
			g.assert(fmt.Sprintf("(forall ((i Int)) (! (=> (and (<= 0 i) (< i (strlen %s))) (= (select %s i) %s)) :pattern ((select %s i))))", v, arr, g.strByte(v, "i"), arr))
			g.assert(fmt.Sprintf("(= %s (store %s %s %s))", nv, cur, ref, arr))
			st.heap = g.heapSet(st.heap, em.Name, nv)
			g.define(x, fmt.Sprintf("(mk_slice %s 0 (strlen %s) (strlen %s))", ref, v, v))
			g.fresh[fmt.Sprintf("(s_arr %s)", g.val(x))] = true
			g.bytesOf[g.val(x)] = v
			return
		}
	}
	if sl, ok := to.Underlying().(*types.Slice); ok && isStringType(from) && !g.w.useStrings {
		// []rune(s) for an all-ASCII string (obligation model.ascii): one rune per byte
		if b, ok := sl.Elem().Underlying().(*types.Basic); ok && b.Kind() == types.Int32 {
			g.check(st, "model.ascii", fmt.Sprintf("(forall ((i Int)) (! (=> (and (<= 0 i) (< i (strlen %s))) (< %s 128)) :pattern (%s)))", v, g.strByte(v, "i"), g.strByte(v, "i")), "[]rune(s) is modelled bytewise: every byte of s must be ASCII", g.posOf(x))
			ref := g.allocRef(st, "runes:"+x.Name())
			em := g.elemMap(sl.Elem())
			cur := g.heapGet(st.heap, em.Name, em.Sort)
			nv := g.freshConst("H:"+em.Name, em.Sort)
			arr := g.freshConst("runes.arr", "(Array Int Int)")
			g.assert(fmt.Sprintf("(forall ((i Int)) (! (=> (and (<= 0 i) (< i (strlen %s))) (= (select %s i) %s)) :pattern ((select %s i))))", v, arr, g.strByte(v, "i"), arr))
			g.assert(fmt.Sprintf("(= %s (store %s %s %s))", nv, cur, ref, arr))
			st.heap = g.heapSet(st.heap, em.Name, nv)
			g.define(x, fmt.Sprintf("(mk_slice %s 0 (strlen %s) (strlen %s))", ref, v, v))
			g.fresh[fmt.Sprintf("(s_arr %s)", g.val(x))] = true
			return
		}
	}
	if sl, ok := from.Underlying().(*types.Slice); ok && isStringType(to) {
		if b, ok := sl.Elem().Underlying().(*types.Basic); ok && b.Kind() == types.Uint8 {
			// string(bytes): a string with the same length and bytes
			r := g.val(x)
			em := g.elemMap(sl.Elem())
			cur := g.heapGet(st.heap, em.Name, em.Sort)
			g.assert(fmt.Sprintf("(= (strlen %s) (s_len %s))", r, v))
			g.assert(fmt.Sprintf("(forall ((i Int)) (! (=> (and (<= 0 i) (< i (s_len %s))) (= %s (select (select %s (s_arr %s)) (sidx %s i)))) :pattern (%s)))", v, g.strByte(r, "i"), cur, v, v, g.strByte(r, "i")))
			// the same bytes give the same string
			f := g.ufun("str.ofbytes", "((Array Int Int) Int Int) Str")
			_ = f
			return
		}
	}
	g.abstract("string conversion " + from.String() + " -> " + to.String())
	g.assumeType(g.val(x), to, g.allocTerm(st.heap), "")
}
