package main

// Engine: loads /repo (working tree, tag verif), builds go/ssa, reads the
// contracts and produces obligations per function.

import (
	"fmt"
	"go/token"
	"go/types"
	"os"
	"path/filepath"
	"sort"
	"strings"

	"golang.org/x/tools/go/packages"
	"golang.org/x/tools/go/ssa"
	"golang.org/x/tools/go/ssa/ssautil"
)

type Engine struct {
	litImports map[string]bool // packages named by the literals of the replay being built
	repo   string
	verif  string
	fset   *token.FileSet
	pkgs   []*packages.Package
	prog   *ssa.Program
	byPath map[string]*packages.Package
	tpkgs  map[string]*types.Package
	cs     *ContractSet
	funcs  map[string]*ssa.Function // by ssa full name
	tier   string

	assumeDomain bool
	overlay      map[string][]byte
	contractFiles []string
	missingFuncs []string
}

func NewEngine(repo, verif string) *Engine {
	return &Engine{repo: repo, verif: verif, byPath: map[string]*packages.Package{}, tpkgs: map[string]*types.Package{}, funcs: map[string]*ssa.Function{}, tier: "quick"}
}

func (e *Engine) Load(patterns []string) error {
	cfg := &packages.Config{
		Mode:       packages.LoadAllSyntax,
		Dir:        e.repo,
		BuildFlags: []string{"-tags=verif"},
		Env:        append(os.Environ(), "GOFLAGS=-mod=mod", "GOPROXY=off", "GOSUMDB=off", "GOTOOLCHAIN=local"),
		Overlay:    e.overlay,
	}
	pkgs, err := packages.Load(cfg, patterns...)
	if err != nil {
		return err
	}
	var errs []string
	packages.Visit(pkgs, nil, func(p *packages.Package) {
		for _, er := range p.Errors {
			errs = append(errs, er.Error())
		}
	})
	if len(errs) > 0 {
		return fmt.Errorf("package load errors:\n%s", strings.Join(errs, "\n"))
	}
	e.pkgs = pkgs
	e.fset = pkgs[0].Fset
	prog, _ := ssautil.AllPackages(pkgs, ssa.InstantiateGenerics|ssa.GlobalDebug)
	prog.Build()
	e.prog = prog
	packages.Visit(pkgs, nil, func(p *packages.Package) {
		e.byPath[p.PkgPath] = p
		e.tpkgs[p.PkgPath] = p.Types
	})
	for fn := range ssautil.AllFunctions(prog) {
		e.funcs[fn.String()] = fn
	}
	return nil
}

// LoadContracts reads every contracts_verif.go of the loaded /repo packages
// and the extern contract files under /verif/contracts.
func (e *Engine) LoadContracts() error {
	e.cs = NewContractSet()
	// prelude specs + extern
	ext, _ := filepath.Glob(filepath.Join(e.verif, "contracts", "*.vc"))
	sort.Strings(ext)
	for _, f := range ext {
		if err := e.cs.LoadContractFile(f, ""); err != nil {
			return err
		}
		e.contractFiles = append(e.contractFiles, f)
	}
	var paths []string
	for p := range e.byPath {
		paths = append(paths, p)
	}
	sort.Strings(paths)
	for _, pp := range paths {
		p := e.byPath[pp]
		if !strings.HasPrefix(pp, "github.com/invopop/gobl") {
			continue
		}
		for _, f := range p.GoFiles {
			if filepath.Base(f) == "contracts_verif.go" {
				var err error
				if data, ok := e.overlay[f]; ok {
					tmp, _ := os.CreateTemp("", "cv*.go")
					tmp.Write(data)
					tmp.Close()
					err = e.cs.LoadContractFile(tmp.Name(), pp)
					os.Remove(tmp.Name())
				} else {
					err = e.cs.LoadContractFile(f, pp)
				}
				if err != nil {
					return err
				}
				e.contractFiles = append(e.contractFiles, f)
			}
		}
	}
	// every non-extern contract must name an existing function
	for k, c := range e.cs.Funcs {
		if e.funcs[k] == nil && !c.Extern {
			if !strings.HasSuffix(c.File, ".go") {
				// proved contract for a dependency that is not loaded in this run: only usable as assumed
				c.Extern = true
				continue
			}
			// the function was removed or renamed: its obligations are reported as missing, the rest is still checked
			e.missingFuncs = append(e.missingFuncs, shortKey(k))
			delete(e.cs.Funcs, k)
		}
	}
	sort.Strings(e.missingFuncs)
	return e.checkGlobalAssumptions()
}

// checkGlobalAssumptions: a `global` fact is only admissible for package-level
// variables that no function other than the package initialiser writes.
func (e *Engine) checkGlobalAssumptions() error {
	for _, ga := range e.cs.Globals {
		tp := e.tpkgs[ga.PkgPath]
		if tp == nil {
			continue
		}
		var names []string
		var walk func(n *Node)
		walk = func(n *Node) {
			if n == nil {
				return
			}
			if n.Kind == "ident" {
				if _, ok := tp.Scope().Lookup(n.Name).(*types.Var); ok {
					names = append(names, n.Name)
				}
			}
			for _, k := range n.Kids {
				walk(k)
			}
		}
		walk(ga.Expr)
		for name, fn := range e.funcs {
			if fn.Pkg == nil || fn.Pkg.Pkg != tp || fn.Name() == "init" || strings.HasPrefix(fn.Name(), "init#") {
				continue
			}
			for _, b := range fn.Blocks {
				for _, ins := range b.Instrs {
					st, ok := ins.(*ssa.Store)
					if !ok {
						continue
					}
					root := st.Addr
					for {
						if fa, ok := root.(*ssa.FieldAddr); ok {
							root = fa.X
							continue
						}
						if ia, ok := root.(*ssa.IndexAddr); ok {
							root = ia.X
							continue
						}
						break
					}
					if gl, ok := root.(*ssa.Global); ok {
						for _, n := range names {
							if gl.Name() == n {
								return fmt.Errorf("global assumption %q is not admissible: %s writes %s", ga.Src, shortKey(name), n)
							}
						}
					}
				}
			}
		}
	}
	return nil
}

func (e *Engine) typesPkg(path string) *types.Package { return e.tpkgs[path] }

func (e *Engine) pkgOfContract(c *Contract) *types.Package {
	if p := e.tpkgs[c.PkgPath]; p != nil {
		return p
	}
	if fn := e.funcs[c.Key]; fn != nil && fn.Pkg != nil {
		return fn.Pkg.Pkg
	}
	return nil
}

func (e *Engine) ssaFuncFor(c *Contract) *ssa.Function { return e.funcs[c.Key] }

// findPackage resolves a package name (as used in a qualified identifier) from
// the point of view of pkg: its imports first, then any loaded package.
func (e *Engine) findPackage(name string, from *types.Package) *types.Package {
	if from != nil {
		if from.Name() == name {
			return from
		}
		for _, imp := range from.Imports() {
			if imp.Name() == name {
				return imp
			}
		}
	}
	var cands []string
	for p, tp := range e.tpkgs {
		if tp.Name() == name {
			cands = append(cands, p)
		}
	}
	sort.Slice(cands, func(i, j int) bool {
		gi := strings.HasPrefix(cands[i], "github.com/invopop/gobl")
		gj := strings.HasPrefix(cands[j], "github.com/invopop/gobl")
		if gi != gj {
			return gi
		}
		return len(cands[i]) < len(cands[j])
	})
	if len(cands) > 0 {
		return e.tpkgs[cands[0]]
	}
	return nil
}

// resolveType parses a Go-like type string in the scope of pkg.
func (e *Engine) resolveType(s string, pkg *types.Package) (types.Type, error) {
	s = strings.TrimSpace(s)
	switch {
	case strings.HasPrefix(s, "*"):
		t, err := e.resolveType(s[1:], pkg)
		if err != nil {
			return nil, err
		}
		return types.NewPointer(t), nil
	case strings.HasPrefix(s, "[]"):
		t, err := e.resolveType(s[2:], pkg)
		if err != nil {
			return nil, err
		}
		return types.NewSlice(t), nil
	case strings.HasPrefix(s, "map["):
		depth := 0
		for i, c := range s {
			if c == '[' {
				depth++
			} else if c == ']' {
				depth--
				if depth == 0 {
					k, err := e.resolveType(s[4:i], pkg)
					if err != nil {
						return nil, err
					}
					v, err := e.resolveType(s[i+1:], pkg)
					if err != nil {
						return nil, err
					}
					return types.NewMap(k, v), nil
				}
			}
		}
		return nil, fmt.Errorf("bad map type %q", s)
	}
	switch s {
	case "Int", "int":
		return types.Typ[types.Int], nil
	case "Bool", "bool":
		return types.Typ[types.Bool], nil
	case "Real", "float64":
		return types.Typ[types.Float64], nil
	case "string", "Str":
		return types.Typ[types.String], nil
	case "int64":
		return types.Typ[types.Int64], nil
	case "int32":
		return types.Typ[types.Int32], nil
	case "uint32":
		return types.Typ[types.Uint32], nil
	case "uint64":
		return types.Typ[types.Uint64], nil
	case "uint8", "byte":
		return types.Typ[types.Uint8], nil
	case "uint":
		return types.Typ[types.Uint], nil
	case "rune":
		return types.Typ[types.Int32], nil
	case "error":
		return types.Universe.Lookup("error").Type(), nil
	case "any":
		return types.NewInterfaceType(nil, nil), nil
	}
	if k := strings.LastIndex(s, "."); k >= 0 {
		pn, tn := s[:k], s[k+1:]
		var p *types.Package
		if strings.Contains(pn, "/") {
			p = e.tpkgs[pn]
		} else {
			p = e.findPackage(pn, pkg)
		}
		if p == nil {
			return nil, fmt.Errorf("unknown package %q in type %q", pn, s)
		}
		obj := p.Scope().Lookup(tn)
		if tnObj, ok := obj.(*types.TypeName); ok {
			return tnObj.Type(), nil
		}
		return nil, fmt.Errorf("unknown type %q (contract out of date?)", s)
	}
	if pkg != nil {
		if obj, ok := pkg.Scope().Lookup(s).(*types.TypeName); ok {
			return obj.Type(), nil
		}
	}
	return nil, fmt.Errorf("unknown type %q (contract out of date?)", s)
}

// contractForCall finds the contract of a call's callee (static or interface method).
func (e *Engine) contractForCall(com *ssa.CallCommon) (*Contract, *ssa.Function) {
	if com.IsInvoke() {
		recv := com.Value.Type()
		key := "(" + types.TypeString(recv, nil) + ")." + com.Method.Name()
		if c, ok := e.cs.Funcs[key]; ok {
			return c, nil
		}
		// method of a named interface declared elsewhere (embedded): try the method's own receiver
		if sig, ok := com.Method.Type().(*types.Signature); ok && sig.Recv() != nil {
			key2 := "(" + types.TypeString(sig.Recv().Type(), nil) + ")." + com.Method.Name()
			if c, ok := e.cs.Funcs[key2]; ok {
				return c, nil
			}
		}
		return nil, nil
	}
	callee := com.StaticCallee()
	if callee == nil {
		return nil, nil
	}
	name := callee.String()
	if c, ok := e.cs.Funcs[name]; ok {
		return c, callee
	}
	// generic instantiation: try the origin
	if o := callee.Origin(); o != nil {
		if c, ok := e.cs.Funcs[o.String()]; ok {
			return c, callee
		}
	}
	return nil, callee
}

// findContractByShortName: "Rescale" / "Amount.Rescale" / "num.Amount.Rescale" style lookup for contract-level calls.
func (e *Engine) findContractByShortName(name string, pkg *types.Package) *Contract {
	if k := strings.Index(name, "."); k > 0 {
		// Type.Method (value or pointer receiver) in pkg or any package
		tn, mn := name[:k], name[k+1:]
		var hits []*Contract
		for key, c := range e.cs.Funcs {
			if strings.HasSuffix(key, "."+tn+")."+mn) {
				hits = append(hits, c)
			}
		}
		if len(hits) == 1 {
			return hits[0]
		}
		for _, c := range hits {
			if pkg != nil && c.PkgPath == pkg.Path() {
				return c
			}
		}
		return nil
	}
	var hits []*Contract
	for k, c := range e.cs.Funcs {
		short := k
		if i := strings.LastIndex(k, ")."); i >= 0 {
			short = k[i+2:]
		} else if i := strings.LastIndex(k, "."); i >= 0 {
			short = k[i+1:]
		}
		if short == name {
			hits = append(hits, c)
		}
	}
	if len(hits) == 1 {
		return hits[0]
	}
	// prefer same package
	var same []*Contract
	for _, c := range hits {
		if pkg != nil && c.PkgPath == pkg.Path() {
			same = append(same, c)
		}
	}
	if len(same) == 1 {
		return same[0]
	}
	return nil
}

var knownPure = map[string]bool{
	"errors.New": true, "fmt.Errorf": true, "fmt.Sprintf": true, "fmt.Sprint": true,
	"strings.HasPrefix": true, "strings.HasSuffix": true, "strings.TrimPrefix": true, "strings.TrimSuffix": true,
	"strings.Contains": true, "strings.Split": true, "strings.TrimRight": true, "strings.ToUpper": true, "strings.ToLower": true,
	"strings.TrimSpace": true, "strings.Index": true, "strings.Join": true, "strings.Replace": true, "strings.ReplaceAll": true,
	"strings.Repeat": true, "strings.Fields": true, "strings.EqualFold": true, "strings.Count": true, "strings.Trim": true, "strings.TrimLeft": true,
	"strconv.ParseInt": true, "strconv.Atoi": true, "strconv.Itoa": true, "strconv.FormatInt": true, "strconv.ParseFloat": true, "strconv.Quote": true,
	"math.Round": true, "math.Floor": true, "math.Mod": true, "math.Abs": true, "math.Pow": true, "math.Ceil": true, "math.Trunc": true,
	"(*regexp.Regexp).MatchString": true, "(*regexp.Regexp).FindStringSubmatch": true, "(*regexp.Regexp).ReplaceAllString": true,
	"unicode.IsDigit": true, "unicode.IsLetter": true, "unicode.IsUpper": true, "unicode.ToUpper": true, "unicode.IsSpace": true,
	"(invopop/validation.Errors).Error": true,
	"github.com/invopop/validation.NewError": true,
	"(error).Error": true,
	"time.Now": true, "context.Background": true, "context.WithValue": true, "context.TODO": true,
	"errors.Is": true, "errors.As": true, "errors.Unwrap": true,
	"github.com/invopop/gobl/uuid.V7": true, "github.com/invopop/gobl/uuid.V1": true, "github.com/invopop/gobl/uuid.V4": true,
	"(context.Context).Value": true,
	"unicode/utf8.DecodeRuneInString": true, "unicode/utf8.RuneCountInString": true, "unicode/utf8.ValidString": true,
	"sort.SearchStrings": true,
	"slices.Contains[[]string string]": true,
}

func (e *Engine) isKnownPure(com *ssa.CallCommon) bool {
	if com.IsInvoke() {
		key := "(" + types.TypeString(com.Value.Type(), nil) + ")." + com.Method.Name()
		return knownPure[key]
	}
	callee := com.StaticCallee()
	if callee == nil {
		return false
	}
	return knownPure[callee.String()]
}

func (e *Engine) noteAssumption(g *FuncGen, a string) {
	g.assumptions[a] = true
}

// noteGlobal: assume the declared facts about the package-level variables of a
// package (`global <expr>` clauses) when the function first touches one of them:
// in the entry heap and in every heap version created by a havoc so far.
func (e *Engine) noteGlobal(g *FuncGen, gl *ssa.Global, ref string) {
	if gl.Pkg == nil {
		return
	}
	pkg := gl.Pkg.Pkg.Path()
	if g.globalPkgs == nil {
		g.globalPkgs = map[string]bool{}
	}
	if g.globalPkgs[pkg] {
		return
	}
	g.globalPkgs[pkg] = true
	e.assertGlobals(g, pkg, g.entryHeap)
	for _, h := range g.havocHeaps {
		e.assertGlobals(g, pkg, h)
	}
}

func (e *Engine) assertGlobals(g *FuncGen, pkg string, h *Heap) {
	for _, ga := range e.cs.Globals {
		if ga.PkgPath != pkg {
			continue
		}
		p := e.tpkgs[ga.PkgPath]
		if p == nil {
			continue
		}
		env := &Env{g: g, vars: map[string]Val{}, heap: h, old: g.entryHeap, pkg: p}
		t, err := g.evalBool(ga.Expr, env)
		if err != nil {
			g.abstract("global assumption not evaluable: " + ga.Src + ": " + err.Error())
			continue
		}
		g.assert(t)
		g.assumptions["global (written only by package init; checked syntactically): "+ga.Src] = true
	}
}

// sortOfMap recovers the SMT sort of a heap map from its name.
func (e *Engine) sortOfMap(g *FuncGen, name string) string {
	if s, ok := g.heapSorts[name]; ok {
		return s
	}
	if s, ok := g.mapSortCache[name]; ok {
		return s
	}
	return ""
}

// NewFuncGen prepares generation for one function.
func (e *Engine) NewFuncGen(fn *ssa.Function, c *Contract) *FuncGen {
	core := &Core{eng: e, w: NewWorld(), rootC: c}
	if c != nil && c.Strings {
		core.w.useStrings = true
	}
	if c != nil && c.Bytes {
		core.w.longLits = true
	}
	g := &FuncGen{Core: core, fn: fn, c: c}
	if fn != nil && fn.Pkg != nil {
		g.pkg = fn.Pkg.Pkg
	}
	if fn != nil {
		g.fname = shortKey(fn.String())
	}
	g.declared = map[string]bool{}
	g.counts = map[string]int{}
	g.fresh = map[string]bool{}
	g.nonNil = map[string]bool{}
	g.heapSorts = map[string]string{}
	g.mapSortCache = map[string]string{}
	g.assumptions = map[string]bool{}
	g.usedContracts = map[string]bool{}
	g.inlined = map[string]bool{}
	g.pureDecl = map[string]bool{}
	g.posts = map[string]*postParts{}
	g.bytesOf = map[string]string{}
	g.mapRefKind = map[string]string{}
	g.initFrame()
	return g
}

func (g *FuncGen) initFrame() {
	g.vals = map[ssa.Value]string{}
	g.addrs = map[ssa.Value]*Addr{}
	g.tuples = map[ssa.Value][]string{}
	g.visited = map[*ssa.BasicBlock]string{}
	g.nextKey = map[*ssa.BasicBlock]string{}
	g.strPos = map[*ssa.BasicBlock]string{}
	g.strAx = map[string]bool{}
	g.strNext = map[*ssa.BasicBlock]string{}
	g.atCallPhi = map[string]*ssa.BasicBlock{}
	g.localAllocs = map[*ssa.Alloc]bool{}
}

// Query renders the SMT-LIB text of one obligation.
func (g *FuncGen) Query(o *Obligation, models bool) string {
	return g.QueryPart(o, -1, models)
}

// NumParts: number of separate queries of an obligation.
func (o *Obligation) NumParts() int {
	if len(o.Parts) == 0 {
		return 1
	}
	return len(o.Parts)
}

func (g *FuncGen) QueryPart(o *Obligation, part int, models bool) string {
	return g.queryPart(o, part, models, false)
}

// contextText: prelude, definitions, declarations and the function's
// conditions, without any goal (for incremental sessions). `extra` is scanned
// only to decide which optional prelude parts are needed.
func (g *FuncGen) contextText(extra string) string {
	var body strings.Builder
	for _, d := range g.specDefs {
		body.WriteString(d)
		body.WriteString("\n")
	}
	for _, d := range g.decls {
		body.WriteString(d)
		body.WriteString("\n")
	}
	for i, a := range g.asserts {
		if g.disabled[i+1] {
			continue
		}
		body.WriteString("(assert ")
		body.WriteString(a)
		body.WriteString(")\n")
	}
	var b strings.Builder
	b.WriteString("(set-logic ALL)\n")
	b.WriteString(g.w.Prelude(body.String() + extra))
	b.WriteString("(define-fun wf_slice ((s Slice)) Bool (and (>= (s_arr s) 0) (>= (s_off s) 0) (>= (s_len s) 0) (<= (s_len s) (s_cap s)) (<= (s_cap s) 9223372036854775807) (=> (= (s_arr s) 0) (and (= (s_off s) 0) (= (s_cap s) 0)))))\n")
	b.WriteString(body.String())
	return b.String()
}

func (g *FuncGen) queryPart(o *Obligation, part int, models bool, abstracted bool) string {
	guard, goal := o.Guard, o.Goal
	if len(o.Parts) > 0 {
		if part < 0 {
			part = 0
		}
		guard, goal = o.Parts[part].Guard, o.Parts[part].Goal
	}
	sub := func(x string) string {
		for _, s := range o.Subst {
			x = strings.ReplaceAll(x, s[0], s[1])
		}
		if abstracted {
			for _, s := range g.abstractions {
				x = strings.ReplaceAll(x, s[0], s[1])
			}
		}
		return x
	}
	var body strings.Builder
	for _, d := range g.specDefs {
		body.WriteString(d)
		body.WriteString("\n")
	}
	for _, d := range g.decls {
		body.WriteString(d)
		body.WriteString("\n")
	}
	guard, goal = sub(guard), sub(goal)
	for i, a := range g.asserts {
		if g.disabled[i+1] {
			continue
		}
		body.WriteString("(assert ")
		body.WriteString(sub(a))
		body.WriteString(")\n")
	}
	for _, x := range o.Extra {
		body.WriteString("(assert ")
		body.WriteString(x)
		body.WriteString(")\n")
	}
	if guard != "" && guard != "true" {
		body.WriteString("(assert " + guard + ")\n")
	}
	if o.WantSat {
		if goal != "true" {
			body.WriteString("(assert " + goal + ")\n")
		}
	} else {
		body.WriteString("(assert (not " + goal + "))\n")
	}
	var b strings.Builder
	b.WriteString("(set-option :produce-models true)\n")
	b.WriteString("(set-logic ALL)\n")
	b.WriteString(g.w.Prelude(body.String()))
	b.WriteString("(define-fun wf_slice ((s Slice)) Bool (and (>= (s_arr s) 0) (>= (s_off s) 0) (>= (s_len s) 0) (<= (s_len s) (s_cap s)) (<= (s_cap s) 9223372036854775807) (=> (= (s_arr s) 0) (and (= (s_off s) 0) (= (s_cap s) 0)))))\n")
	b.WriteString(body.String())
	b.WriteString("(check-sat)\n")
	if models && !o.WantSat {
		var names []string
		for n := range g.paramTerms {
			names = append(names, n)
		}
		sort.Strings(names)
		var ts []string
		for _, n := range names {
			ts = append(ts, g.paramTerms[n].Term)
		}
		ts = append(ts, g.strModelTerms(names, body.String())...)
		if len(ts) > 0 {
			b.WriteString("(get-value (" + strings.Join(ts, " ") + "))\n")
		}
	}
	return b.String()
}

// strModelBytes: how many leading bytes of a byte-model string are read back
// from a solver model (longer strings are not replayed).
const strModelBytes = 24

// strModelTerms: for every string-typed parameter in the byte-level string
// model, the terms that read its length and leading bytes from a model.
func (g *FuncGen) strModelTerms(names []string, body string) []string {
	if g.w.useStrings || !strings.Contains(body, "(|str.byte| ") {
		return nil
	}
	var ts []string
	for _, n := range names {
		v := g.paramTerms[n]
		if v.Type == nil || !isStringType(v.Type) {
			continue
		}
		ts = append(ts, fmt.Sprintf("(strlen %s)", v.Term))
		for k := 0; k < strModelBytes; k++ {
			ts = append(ts, fmt.Sprintf("(|str.byte| %s %d)", v.Term, k))
		}
	}
	return ts
}
