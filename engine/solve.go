package main

// Solver portfolio: z3 4.8.12, z3-new 5.1.0, cvc5 1.0 raced per obligation.

import (
	"bytes"
	"context"
	"crypto/sha256"
	"encoding/hex"
	"fmt"
	"os"
	"os/exec"
	"path/filepath"
	"strings"
	"sync"
	"time"
)

type Verdict struct {
	Status  string // unsat, sat, unknown, timeout, error
	Solver  string
	Seconds float64
	Output  string
	Cached  bool
	Others  map[string]string
	Part    int
}

type solverDef struct {
	name string
	args func(file string, timeout int) []string
	bin  string
}

var solvers = []solverDef{
	{name: "z3-4.8.12", bin: "z3", args: func(f string, t int) []string { return []string{fmt.Sprintf("-T:%d", t), f} }},
	{name: "z3-5.1.0", bin: "z3-new", args: func(f string, t int) []string { return []string{fmt.Sprintf("-T:%d", t), f} }},
	{name: "cvc5-1.0.3", bin: "cvc5", args: func(f string, t int) []string {
		return []string{"--strings-exp", "--produce-models", fmt.Sprintf("--tlimit=%d", t*1000), f}
	}},
}

type Solver struct {
	cacheDir string
	timeout  int
	sem      chan struct{}
	noCache  bool
	all      bool // wait for every solver (cross-check)
	tmpDir   string
	mu       sync.Mutex
	seed     int
	seq      int
	skip     func(o *Obligation) bool
	noCap    bool // retry pass: use the full time limit also for sweep / cover obligations
}

func NewSolver(cacheDir string, timeout, par int) *Solver {
	os.MkdirAll(cacheDir, 0o755)
	tmp, _ := os.MkdirTemp("", "goblvc-q")
	return &Solver{cacheDir: cacheDir, timeout: timeout, sem: make(chan struct{}, par), tmpDir: tmp}
}

func (s *Solver) Close() { os.RemoveAll(s.tmpDir) }

func firstLine(out string) string {
	for _, l := range strings.Split(out, "\n") {
		l = strings.TrimSpace(l)
		if l == "" || strings.HasPrefix(l, ";") {
			continue
		}
		return l
	}
	return ""
}

func (s *Solver) Solve(query string, want string) Verdict {
	if want == "cover" && !s.noCap {
		// vacuity checks only need a quick look
		s2 := *s
		if s2.timeout > 5 {
			s2.timeout = 5
		}
		s2.mu = sync.Mutex{}
		s.mu.Lock()
		s.seq += 1000
		s2.seq = s.seq
		s.mu.Unlock()
		return s2.solve(query)
	}
	return s.solve(query)
}

func (s *Solver) solve(query string) Verdict {
	h := sha256.Sum256([]byte(query))
	key := hex.EncodeToString(h[:])
	cpath := filepath.Join(s.cacheDir, key)
	if !s.noCache {
		if data, err := os.ReadFile(cpath); err == nil {
			parts := strings.SplitN(string(data), "\n", 3)
			if len(parts) >= 2 && (parts[0] == "unsat" || parts[0] == "sat") {
				v := Verdict{Status: parts[0], Solver: parts[1], Cached: true}
				if len(parts) == 3 {
					v.Output = parts[2]
				}
				return v
			}
		}
	}
	s.mu.Lock()
	s.seq++
	seq := s.seq
	s.mu.Unlock()
	file := filepath.Join(s.tmpDir, fmt.Sprintf("%s.%d.smt2", key[:16], seq))
	os.WriteFile(file, []byte(query), 0o644)
	defer os.Remove(file)

	ctx, cancel := context.WithCancel(context.Background())
	defer cancel()
	type res struct {
		v Verdict
	}
	ch := make(chan res, len(solvers))
	start := time.Now()
	for _, sd := range solvers {
		sd := sd
		go func() {
			s.sem <- struct{}{}
			defer func() { <-s.sem }()
			if ctx.Err() != nil {
				ch <- res{Verdict{Status: "cancelled", Solver: sd.name}}
				return
			}
			t0 := time.Now()
			c2, cancel2 := context.WithTimeout(ctx, time.Duration(s.timeout+2)*time.Second)
			defer cancel2()
			cmd := exec.CommandContext(c2, sd.bin, sd.args(file, s.timeout)...)
			var out bytes.Buffer
			cmd.Stdout = &out
			cmd.Stderr = &out
			cmd.Run()
			o := out.String()
			st := firstLine(o)
			switch {
			case st == "unsat" || st == "sat":
			case strings.Contains(st, "timeout") || c2.Err() != nil:
				st = "timeout"
			case st == "unknown":
			default:
				if strings.Contains(o, "error") || strings.Contains(o, "Error") {
					st = "error"
				} else {
					st = "unknown"
				}
			}
			ch <- res{Verdict{Status: st, Solver: sd.name, Seconds: time.Since(t0).Seconds(), Output: o}}
		}()
	}
	var best Verdict
	best.Status = "unknown"
	others := map[string]string{}
	errOut := ""
	for i := 0; i < len(solvers); i++ {
		r := <-ch
		others[r.v.Solver] = r.v.Status
		if r.v.Status == "error" {
			errOut += r.v.Solver + ": " + truncate(r.v.Output, 400) + "\n"
		}
		if r.v.Status == "unsat" || r.v.Status == "sat" {
			if best.Status != "unsat" && best.Status != "sat" {
				best = r.v
				if !s.all {
					cancel()
				}
			} else if best.Status != r.v.Status {
				best.Status = "disagree"
				best.Output += "\nDISAGREEMENT: " + r.v.Solver + " says " + r.v.Status
			}
		} else if best.Status == "unknown" && r.v.Status == "timeout" {
			best.Status = "timeout"
		}
	}
	best.Others = others
	if best.Status != "unsat" && best.Status != "sat" {
		best.Seconds = time.Since(start).Seconds()
		if errOut != "" {
			best.Output = errOut
			allErr := true
			for _, st := range others {
				if st != "error" {
					allErr = false
				}
			}
			if allErr {
				best.Status = "error"
			}
		}
	}
	if best.Status == "unsat" || best.Status == "sat" {
		os.WriteFile(cpath, []byte(best.Status+"\n"+best.Solver+"\n"+best.Output), 0o644)
	}
	return best
}

func truncate(s string, n int) string {
	if len(s) > n {
		return s[:n] + "…"
	}
	return s
}


func (s *Solver) cachePath(query string) string {
	h := sha256.Sum256([]byte(query))
	return filepath.Join(s.cacheDir, hex.EncodeToString(h[:]))
}

func (s *Solver) cached(query string) (Verdict, bool) {
	if s.noCache {
		return Verdict{}, false
	}
	data, err := os.ReadFile(s.cachePath(query))
	if err != nil {
		return Verdict{}, false
	}
	parts := strings.SplitN(string(data), "\n", 3)
	if len(parts) >= 2 && (parts[0] == "unsat" || parts[0] == "sat") {
		v := Verdict{Status: parts[0], Solver: parts[1], Cached: true}
		if len(parts) == 3 {
			v.Output = parts[2]
		}
		return v, true
	}
	return Verdict{}, false
}

func (s *Solver) store(query, status, solver string) {
	os.WriteFile(s.cachePath(query), []byte(status+"\n"+solver+"\n"), 0o644)
}

// runIncremental runs one z3 session over a script with n check-sat commands
// and returns the answers in order (missing answers mean the session died).
func (s *Solver) runIncremental(script string, perCheckSec, n int) []string {
	s.mu.Lock()
	s.seq++
	seq := s.seq
	s.mu.Unlock()
	file := filepath.Join(s.tmpDir, fmt.Sprintf("inc.%d.smt2", seq))
	os.WriteFile(file, []byte(script), 0o644)
	defer os.Remove(file)
	s.sem <- struct{}{}
	defer func() { <-s.sem }()
	total := perCheckSec*n/4 + 30
	ctx, cancel := context.WithTimeout(context.Background(), time.Duration(total)*time.Second)
	defer cancel()
	cmd := exec.CommandContext(ctx, "z3-new", fmt.Sprintf("-t:%d", perCheckSec*1000), file)
	var out bytes.Buffer
	cmd.Stdout = &out
	cmd.Stderr = &out
	cmd.Run()
	var ans []string
	for _, l := range strings.Split(out.String(), "\n") {
		l = strings.TrimSpace(l)
		switch l {
		case "sat", "unsat", "unknown", "timeout":
			ans = append(ans, l)
		}
	}
	return ans
}
