package main

import (
	"go/types"
	"go/token"
	"go/printer"
	"go/ast"
	"bytes"
	"encoding/json"
	"os/exec"
	"flag"
	"fmt"
	"os"
	"regexp"
	"sort"
	"strings"
	"sync"
	"time"
)

type Result struct {
	O *Obligation
	V Verdict
}

func envInt(name string, def int) int {
	if v := os.Getenv(name); v != "" {
		var n int
		if _, err := fmt.Sscanf(v, "%d", &n); err == nil {
			return n
		}
	}
	return def
}

// generateAll builds obligations for every function under contract whose
// short name matches re (nil = all), plus lemmas.
func (e *Engine) generateAll(re *regexp.Regexp) ([]*FuncGen, error) {
	var keys []string
	for k, c := range e.cs.Funcs {
		if c.Extern || c.NoVerify {
			continue
		}
		if re != nil && !re.MatchString(shortKey(k)) {
			continue
		}
		keys = append(keys, k)
	}
	sort.Strings(keys)
	var gens []*FuncGen
	var mu sync.Mutex
	var firstErr error
	var wg sync.WaitGroup
	sem := make(chan struct{}, 8)
	out := make([]*FuncGen, len(keys))
	for i, k := range keys {
		i, k := i, k
		wg.Add(1)
		go func() {
			defer wg.Done()
			sem <- struct{}{}
			defer func() { <-sem }()
			c := e.cs.Funcs[k]
			fn := e.funcs[k]
			g := e.NewFuncGen(fn, c)
			if err := g.Generate(); err != nil {
				mu.Lock()
				if firstErr == nil {
					firstErr = err
				}
				mu.Unlock()
				return
			}
			g.applyAbstractions()
			g.applySplits()
			out[i] = g
		}()
	}
	wg.Wait()
	if firstErr != nil {
		return nil, firstErr
	}
	for _, g := range out {
		if g != nil {
			gens = append(gens, g)
		}
	}
	pinPkgs := map[string]bool{}
	for _, g := range gens {
		if g.fn != nil && g.fn.Pkg != nil {
			pinPkgs[g.fn.Pkg.Pkg.Path()] = true
		}
	}
	for _, pin := range e.cs.Pins {
		if pinPkgs[pin.PkgPath] {
			gens = append(gens, e.genPin(pin))
		}
	}
	for _, lm := range e.cs.Lemmas {
		name := "lemma#" + lm.Name
		if re != nil && !re.MatchString(name) && !re.MatchString(shortPath(lm.PkgPath)+".lemma#"+lm.Name) {
			continue
		}
		g, err := e.genLemma(lm)
		if err != nil {
			return nil, err
		}
		gens = append(gens, g)
	}
	return gens, nil
}

// applySplits instantiates each obligation once per value of the split expression.
func (g *FuncGen) applySplits() {
	if g.c == nil || len(g.c.Splits) == 0 {
		return
	}
	for _, sp := range g.c.Splits {
		env := g.entryEnv()
		for _, l := range g.c.Lets {
			if v, ok := g.paramTerms[l.Name]; ok {
				env.vars[l.Name] = v
			}
		}
		v, err := g.eval(sp.Expr, env)
		if err != nil {
			g.unsupported = "split: " + err.Error()
			return
		}
		hi := sp.Hi
		if g.eng.tier == "thorough" {
			hi = sp.Hi2
		}
		var out []*Obligation
		for _, o := range g.obls {
			if o.WantSat {
				out = append(out, o)
				continue
			}
			if len(sp.Only) > 0 {
				hit := false
				for _, lb := range sp.Only {
					if strings.HasSuffix(baseName(o.Name), ":"+lb) {
						hit = true
					}
				}
				if !hit {
					out = append(out, o)
					continue
				}
			}
			for k := sp.Lo; k <= hi; k++ {
				c := *o
				c.Name = fmt.Sprintf("%s[%s=%d]", o.Name, sp.Expr.String(), k)
				c.Extra = append(append([]string{}, o.Extra...), fmt.Sprintf("(= %s %d)", v.Term, k))
				c.Subst = append(append([][2]string{}, o.Subst...), [2]string{v.Term, fmt.Sprintf("%d", k)})
				out = append(out, &c)
			}
			if sp.Bounded {
				g.bounded = append(g.bounded, fmt.Sprintf("%s in %d..%d", sp.Expr.String(), sp.Lo, hi))
				continue
			}
			// the rest of the domain outside the split range is covered by one residual instance
			c := *o
			c.Name = fmt.Sprintf("%s[%s outside %d..%d]", o.Name, sp.Expr.String(), sp.Lo, hi)
			c.Extra = append(append([]string{}, o.Extra...), fmt.Sprintf("(not (and (<= %d %s) (<= %s %d)))", sp.Lo, v.Term, v.Term, hi))
			out = append(out, &c)
		}
		g.obls = out
	}
}

// applyAbstractions: `abstract <expr>` directives give each obligation a
// variant in which the (nonlinear) term is an unconstrained constant; unsat
// of the variant implies unsat of the original.
func (g *FuncGen) applyAbstractions() {
	if g.c == nil || len(g.c.Abstract) == 0 {
		return
	}
	env := g.entryEnv()
	for _, l := range g.c.Lets {
		if v, ok := g.paramTerms[l.Name]; ok {
			env.vars[l.Name] = v
		}
	}
	for i, a := range g.c.Abstract {
		v, err := g.eval(a, env)
		if err != nil {
			g.unsupported = "abstract: " + err.Error()
			return
		}
		name := g.declare(fmt.Sprintf("abs!%d", i), g.w.SortOf(v.Type))
		g.abstractions = append(g.abstractions, [2]string{v.Term, name})
	}
}

func (e *Engine) genLemma(lm *Lemma) (*FuncGen, error) {
	g := e.NewFuncGen(nil, nil)
	g.pkg = e.tpkgs[lm.PkgPath]
	g.fname = shortPath(lm.PkgPath) + ".lemma"
	g.entryHeap = g.newHeap(hEntry)
	g.alloc0 = g.heapGet(g.entryHeap, "$alloc", "Int")
	g.assert(fmt.Sprintf("(> %s 0)", g.alloc0))
	g.ownMod = map[string]bool{}
	g.paramTerms = map[string]Val{}
	env := &Env{g: g, vars: map[string]Val{}, heap: g.entryHeap, old: g.entryHeap, pkg: g.pkg}
	for i, p := range lm.Params {
		t, err := e.resolveType(lm.PTypes[i], g.pkg)
		if err != nil {
			return nil, fmt.Errorf("lemma %s: %v", lm.Name, err)
		}
		c := g.declare("p:"+p, g.w.SortOf(t))
		g.assumeType(c, t, g.alloc0, "")
		env.vars[p] = Val{c, t}
		g.paramTerms[p] = Val{c, t}
	}
	body, err := g.evalBool(lm.Body, env)
	if err != nil {
		return nil, fmt.Errorf("lemma %s: %v", lm.Name, err)
	}
	o := &Obligation{Name: g.fname + "#" + lm.Name, Func: g.fname, Kind: "lemma", Guard: "true", Goal: body, Desc: "lemma " + lm.Name + ": " + lm.Body.String(), Gen: g}
	g.obls = append(g.obls, o)
	return g, nil
}

// normInit: initialiser text with white space and trailing commas removed.
func normInit(t string) string {
	t = strings.Join(strings.Fields(t), "")
	t = strings.ReplaceAll(t, ",}", "}")
	return t
}

// initText: the source text of the initialiser of package-level variable name.
func (e *Engine) initText(pkgPath, name string) (string, bool) {
	for _, p := range e.pkgs {
		if p.PkgPath != pkgPath {
			continue
		}
		for _, f := range p.Syntax {
			for _, d := range f.Decls {
				gd, ok := d.(*ast.GenDecl)
				if !ok || gd.Tok != token.VAR {
					continue
				}
				for _, sp := range gd.Specs {
					vs := sp.(*ast.ValueSpec)
					for i, n := range vs.Names {
						if n.Name == name && i < len(vs.Values) {
							var b bytes.Buffer
							printer.Fprint(&b, e.fset, vs.Values[i])
							// constants the initialiser names are part of what is pinned
							seen := map[string]bool{}
							ast.Inspect(vs.Values[i], func(nd ast.Node) bool {
								if id, ok := nd.(*ast.Ident); ok && p.TypesInfo != nil {
									if c, ok := p.TypesInfo.Uses[id].(*types.Const); ok && c.Pkg() == p.Types && !seen[id.Name] {
										seen[id.Name] = true
										fmt.Fprintf(&b, " /* %s = %s */", id.Name, c.Val().ExactString())
									}
								}
								return true
							})
							return b.String(), true
						}
					}
				}
			}
		}
	}
	return "", false
}

// genPin: an obligation that holds exactly when the initialiser of a pinned
// package-level variable still reads as the contract file says (decided
// syntactically, no solver reasoning involved).
func (e *Engine) genPin(pin Pin) *FuncGen {
	g := e.NewFuncGen(nil, nil)
	g.pkg = e.tpkgs[pin.PkgPath]
	g.fname = shortPath(pin.PkgPath) + ".pin"
	g.entryHeap = g.newHeap(hEntry)
	g.alloc0 = g.heapGet(g.entryHeap, "$alloc", "Int")
	g.ownMod = map[string]bool{}
	g.paramTerms = map[string]Val{}
	got, ok := e.initText(pin.PkgPath, pin.Var)
	goal := "false"
	desc := fmt.Sprintf("initialiser of %s is the pinned text %s", pin.Var, pin.Text)
	if ok && normInit(got) == normInit(pin.Text) {
		goal = "true"
	} else if ok {
		desc += " (the source now reads: " + strings.Join(strings.Fields(got), " ") + "); the global facts assumed about it are stale"
	} else {
		desc += " (no such initialiser in the source)"
	}
	// the goal is a named Boolean fixed by an assertion, so that `true` is not
	// optimised away before an obligation exists
	c := g.declare("pin.holds", "Bool")
	g.assert(fmt.Sprintf("(= %s %s)", c, goal))
	o := &Obligation{Name: g.fname + "#" + pin.Var, Func: g.fname, Kind: "pin", Guard: "true", Goal: c, Desc: desc, Gen: g}
	g.obls = append(g.obls, o)
	return g
}

func main() {
	if len(os.Args) < 2 {
		fmt.Fprintln(os.Stderr, "usage: goblvc <verify|check|dump|replay> ...")
		os.Exit(2)
	}
	switch os.Args[1] {
	case "verify":
		os.Exit(cmdVerify(os.Args[2:]))
	case "check":
		os.Exit(cmdCheck(os.Args[2:]))
	case "selftest":
		os.Exit(cmdSelftest(os.Args[2:]))
	default:
		fmt.Fprintln(os.Stderr, "unknown command", os.Args[1])
		os.Exit(2)
	}
}

func cmdVerify(args []string) int {
	fs := flag.NewFlagSet("verify", flag.ExitOnError)
	repo := fs.String("repo", "/repo", "repository root")
	verif := fs.String("verif", "/verif", "verif root")
	pat := fs.String("f", "", "regexp on function short names")
	pk := fs.String("pkgs", "./num", "comma-separated package patterns")
	timeout := fs.Int("t", 10, "per-obligation timeout (s)")
	dump := fs.String("dump", "", "write queries of matching obligations to this dir")
	only := fs.String("o", "", "regexp on obligation names")
	nocache := fs.Bool("nocache", false, "ignore verdict cache")
	tier := fs.String("tier", "quick", "tier")
	verbose := fs.Bool("v", false, "verbose")
	mut := fs.String("mut", "", "overlay mutation: relpath::old::new")
	fs.Parse(args)
	e := NewEngine(*repo, *verif)
	e.tier = *tier
	if *mut != "" {
		parts := strings.SplitN(*mut, "::", 3)
		if len(parts) != 3 {
			fmt.Fprintln(os.Stderr, "bad -mut")
			return 2
		}
		if err := e.addMutation(parts[0], parts[1], parts[2]); err != nil {
			fmt.Fprintln(os.Stderr, err)
			return 2
		}
	}
	t0 := time.Now()
	if err := e.Load(strings.Split(*pk, ",")); err != nil {
		fmt.Fprintln(os.Stderr, "load:", err)
		return 2
	}
	if err := e.LoadContracts(); err != nil {
		fmt.Fprintln(os.Stderr, "contracts:", err)
		return 2
	}
	fmt.Printf("loaded in %.1fs, %d contracts, %d specs, %d lemmas\n", time.Since(t0).Seconds(), len(e.cs.Funcs), len(e.cs.Specs), len(e.cs.Lemmas))
	var re *regexp.Regexp
	if *pat != "" {
		re = regexp.MustCompile(*pat)
	}
	gens, err := e.generateAll(re)
	if err != nil {
		fmt.Fprintln(os.Stderr, "generate:", err)
		return 2
	}
	var obls []*Obligation
	for _, g := range gens {
		if g.unsupported != "" {
			fmt.Printf("UNSUPPORTED %s: %s\n", g.fname, g.unsupported)
			continue
		}
		obls = append(obls, g.obls...)
	}
	if *only != "" {
		ro := regexp.MustCompile(*only)
		var f []*Obligation
		for _, o := range obls {
			if ro.MatchString(o.Name) {
				f = append(f, o)
			}
		}
		obls = f
	}
	sv := NewSolver(*verif+"/.cache", *timeout, 16)
	sv.noCache = *nocache
	defer sv.Close()
	results := runObligations(sv, obls)
	bad := 0
	for _, r := range results {
		ok := oblOK(r)
		if !ok {
			bad++
		}
		if !ok || *verbose {
			mark := "ok  "
			if !ok {
				mark = "FAIL"
			}
			fmt.Printf("%s %-70s %-8s %-10s %.2fs %s  [%s]\n", mark, r.O.Name, r.V.Status, r.V.Solver, r.V.Seconds, r.O.Pos, r.O.Desc)
			if !ok && r.V.Status == "sat" {
				fmt.Printf("     model: %s\n", strings.ReplaceAll(modelOf(r.V.Output), "\n", " "))
			}
			if r.V.Status == "error" {
				fmt.Printf("     %s\n", truncate(r.V.Output, 600))
			}
		}
		if *dump != "" && (!ok || *only != "") {
			os.MkdirAll(*dump, 0o755)
			for k := 0; k < r.O.NumParts(); k++ {
				os.WriteFile(fmt.Sprintf("%s/%s.p%d.smt2", *dump, sanitizeFile(r.O.Name), k), []byte(r.O.Gen.QueryPart(r.O, k, true)), 0o644)
			}
		}
	}
	for _, g := range gens {
		if *verbose && len(g.abstracted) > 0 {
			fmt.Printf("abstracted in %s: %s\n", g.fname, strings.Join(g.abstracted, "; "))
		}
	}
	fmt.Printf("%d obligations, %d not discharged, %.1fs\n", len(results), bad, time.Since(t0).Seconds())
	if bad > 0 {
		return 1
	}
	return 0
}

func (e *Engine) addMutation(rel, old, new string) error {
	path := e.repo + "/" + rel
	data, err := os.ReadFile(path)
	if err != nil {
		return err
	}
	if e.overlay == nil {
		e.overlay = map[string][]byte{}
	}
	if cur, ok := e.overlay[path]; ok {
		data = cur
	}
	if !strings.Contains(string(data), old) {
		return fmt.Errorf("mutation: %q not found in %s", old, rel)
	}
	e.overlay[path] = []byte(strings.Replace(string(data), old, new, 1))
	return nil
}

func sanitizeFile(s string) string {
	r := strings.NewReplacer("/", "_", " ", "_", "(", "", ")", "", "*", "p", "#", "-", ":", "_", "[", "_", "]", "_", "=", "_")
	return r.Replace(s)
}

func modelOf(out string) string {
	i := strings.Index(out, "\n")
	if i < 0 {
		return ""
	}
	return strings.TrimSpace(out[i+1:])
}

func runObligations(sv *Solver, obls []*Obligation) []Result {
	results := make([]Result, len(obls))
	// first pass: per function, one incremental solver session over all of its
	// plain obligations (the function's conditions are parsed once)
	pre := batchSolve(sv, obls)
	var wg sync.WaitGroup
	sem := make(chan struct{}, 12)
	for i, o := range obls {
		i, o := i, o
		if v, ok := pre[o]; ok {
			results[i] = Result{O: o, V: v}
			continue
		}
		if sv.skip != nil && sv.skip(o) {
			results[i] = Result{O: o, V: Verdict{Status: "unknown", Solver: "not attempted beyond the incremental pass (never proved on the baseline)"}}
			continue
		}
		wg.Add(1)
		go func() {
			defer wg.Done()
			sem <- struct{}{}
			defer func() { <-sem }()
			var v Verdict
			for k := 0; k < o.NumParts(); k++ {
				var pv Verdict
				if len(o.Gen.abstractions) > 0 && !o.WantSat {
					pv = sv.Solve(o.Gen.queryPart(o, k, true, true), "")
					if pv.Status == "unsat" {
						pv.Solver += "+abs"
					}
				}
				if pv.Status != "unsat" {
					q := o.Gen.QueryPart(o, k, true)
					want := ""
					if o.WantSat || o.Gen.sweep {
						want = "cover" // short limit: vacuity checks and sweep obligations
					}
					pv = sv.Solve(q, want)
				}
				pv.Part = k
				if k == 0 {
					v = pv
				} else {
					secs := v.Seconds + pv.Seconds
					if pv.Status != "unsat" && v.Status == "unsat" {
						v = pv
					}
					v.Seconds = secs
				}
				if v.Status != "unsat" {
					break
				}
			}
			results[i] = Result{O: o, V: v}
		}()
	}
	wg.Wait()
	return results
}

// cmdSelftest runs the must-fail / must-pass corpus: every entry is a source edit
// applied through the loader overlay (nothing is written into /repo); a must-fail
// entry has to produce a VIOLATION for its property, a must-pass entry must not.
func cmdSelftest(args []string) int {
	fs := flag.NewFlagSet("selftest", flag.ExitOnError)
	verif := fs.String("verif", "/verif", "verif root")
	only := fs.String("p", "", "only entries of this property")
	repo := fs.String("repo", "/repo", "repository root")
	fs.Parse(args)
	data, err := os.ReadFile(*verif + "/selftest/mutants.json")
	if err != nil {
		fmt.Fprintln(os.Stderr, err)
		return 2
	}
	type entry struct {
		ID       string `json:"id"`
		Property string `json:"property"`
		File     string `json:"file"`
		Find     string `json:"find"`
		Replace  string `json:"replace"`
		Expect   string `json:"expect"` // violation | quiet
		Note     string `json:"note"`
	}
	var list []entry
	if err := json.Unmarshal(data, &list); err != nil {
		fmt.Fprintln(os.Stderr, "mutants.json:", err)
		return 2
	}
	exe, _ := os.Executable()
	type res struct {
		e   entry
		ok  bool
		msg string
	}
	out := make([]res, len(list))
	var wg sync.WaitGroup
	sem := make(chan struct{}, 3)
	for i, en := range list {
		if *only != "" && en.Property != *only {
			continue
		}
		i, en := i, en
		wg.Add(1)
		go func() {
			defer wg.Done()
			sem <- struct{}{}
			defer func() { <-sem }()
			cmd := exec.Command(exe, "check", en.Property, "-q", "-noevidence", "-repo", *repo, "-verif", *verif, "-mut", en.File+"::"+en.Find+"::"+en.Replace)
			b, _ := cmd.CombinedOutput()
			n := strings.Count(string(b), "VIOLATION property="+en.Property)
			engineErr := strings.Contains(string(b), "engine error")
			switch en.Expect {
			case "violation":
				out[i] = res{en, n > 0 && !engineErr, fmt.Sprintf("%d violation line(s)", n)}
			default:
				out[i] = res{en, n == 0 && !engineErr, fmt.Sprintf("%d violation line(s)", n)}
			}
			if engineErr {
				out[i].msg += " ENGINE ERROR: " + truncate(string(b), 300)
			}
		}()
	}
	wg.Wait()
	bad := 0
	for _, r := range out {
		if r.e.ID == "" {
			continue
		}
		mark := "ok  "
		if !r.ok {
			mark = "FAIL"
			bad++
		}
		fmt.Printf("%s %-28s %-4s expect=%-9s %s\n", mark, r.e.ID, r.e.Property, r.e.Expect, r.msg)
	}
	if bad > 0 {
		fmt.Printf("selftest: %d entries did not behave as expected\n", bad)
		return 2
	}
	fmt.Println("selftest: all entries behave as expected")
	return 0
}


// batchSolve discharges, per FuncGen, the obligations that need no per-instance
// rewriting in one incremental z3 session (push / check-sat / pop). Only
// `unsat` answers are used; everything else goes to the per-obligation portfolio.
func batchSolve(sv *Solver, obls []*Obligation) map[*Obligation]Verdict {
	out := map[*Obligation]Verdict{}
	var mu sync.Mutex
	byGen := map[*FuncGen][]*Obligation{}
	var gens []*FuncGen
	for _, o := range obls {
		if o.WantSat || len(o.Subst) > 0 || len(o.Extra) > 0 || len(o.Gen.abstractions) > 0 {
			continue
		}
		if _, ok := byGen[o.Gen]; !ok {
			gens = append(gens, o.Gen)
		}
		byGen[o.Gen] = append(byGen[o.Gen], o)
	}
	var wg sync.WaitGroup
	sem := make(chan struct{}, 14)
	for _, g := range gens {
		list := byGen[g]
		if len(list) < 4 {
			continue
		}
		g := g
		wg.Add(1)
		go func() {
			defer wg.Done()
			sem <- struct{}{}
			defer func() { <-sem }()
			// cache lookup first
			var todo []*Obligation
			for _, o := range list {
				allCached := true
				var v Verdict
				for k := 0; k < o.NumParts(); k++ {
					cv, ok := sv.cached(g.QueryPart(o, k, true))
					if !ok || cv.Status != "unsat" {
						allCached = false
						break
					}
					v = cv
				}
				if allCached {
					mu.Lock()
					out[o] = v
					mu.Unlock()
				} else {
					todo = append(todo, o)
				}
			}
			if len(todo) == 0 {
				return
			}
			type chk struct {
				o    *Obligation
				part int
			}
			var checks []chk
			var sb strings.Builder
			var goals strings.Builder
			for _, o := range todo {
				for k := 0; k < o.NumParts(); k++ {
					guard, goal := o.Guard, o.Goal
					if len(o.Parts) > 0 {
						guard, goal = o.Parts[k].Guard, o.Parts[k].Goal
					}
					goals.WriteString("(push 1)\n")
					if guard != "" && guard != "true" {
						goals.WriteString("(assert " + guard + ")\n")
					}
					goals.WriteString("(assert (not " + goal + "))\n(check-sat)\n(pop 1)\n")
					checks = append(checks, chk{o, k})
				}
			}
			sb.WriteString(g.contextText(goals.String()))
			sb.WriteString(goals.String())
			per := 3
			t0 := time.Now()
			answers := sv.runIncremental(sb.String(), per, len(checks))
			el := time.Since(t0).Seconds()
			okAll := map[*Obligation]bool{}
			seen := map[*Obligation]int{}
			for i, c := range checks {
				if _, ok := okAll[c.o]; !ok {
					okAll[c.o] = true
				}
				if i >= len(answers) || answers[i] != "unsat" {
					okAll[c.o] = false
				}
				seen[c.o]++
			}
			mu.Lock()
			for o, ok := range okAll {
				if ok {
					out[o] = Verdict{Status: "unsat", Solver: "z3-5.1.0/incremental", Seconds: el / float64(len(checks)) * float64(seen[o])}
					for k := 0; k < o.NumParts(); k++ {
						sv.store(g.QueryPart(o, k, true), "unsat", "z3-5.1.0/incremental")
					}
				}
			}
			mu.Unlock()
		}()
	}
	wg.Wait()
	return out
}
