package main

// Property-level check: obligations of the property's contract set, verdicts,
// known findings, baseline comparison, replay, evidence.

import (
	"os/exec"
	"go/types"
	"sync"
	"encoding/json"
	"flag"
	"fmt"
	"os"
	"path/filepath"
	"regexp"
	"sort"
	"strings"
	"time"
)

type PropertySpec struct {
	ID         string   `json:"id"`
	Title      string   `json:"title"`
	Packages   []string `json:"packages"`
	Functions  []string `json:"functions"` // regexps on short function names (roots; callees under contract are added)
	Lemmas     []string `json:"lemmas"`    // regexps on lemma names
	Only       []string `json:"only,omitempty"`    // optional: regexps restricting obligation names for root functions
	NotDecided []string `json:"not_decided"`
	Level      string   `json:"level"`
	Trusted    []string `json:"trusted_base"`
	NoClosure  bool     `json:"no_closure,omitempty"`
	Explanation string  `json:"explanation,omitempty"` // for level "other": what the run means
	Partial    map[string]string `json:"partial,omitempty"` // function regexp -> obligation-name regexp: only these obligations of that function are claimed
	SweepFiles []string `json:"sweep_files,omitempty"` // safety sweep: every function declared in these files (relative to /repo) gets a thin contract; only safe.* obligations are claimed
}

type KnownFinding struct {
	Kind       string // known | fixed
	Property   string
	Obligation string
	Text       string
}

func loadKnownFindings(path string) ([]KnownFinding, error) {
	data, err := os.ReadFile(path)
	if err != nil {
		if os.IsNotExist(err) {
			return nil, nil
		}
		return nil, err
	}
	var out []KnownFinding
	for _, l := range strings.Split(string(data), "\n") {
		l = strings.TrimSpace(l)
		if l == "" || strings.HasPrefix(l, "#") {
			continue
		}
		kf := KnownFinding{}
		switch {
		case strings.HasPrefix(l, "known:"):
			kf.Kind = "known"
			l = strings.TrimSpace(strings.TrimPrefix(l, "known:"))
		case strings.HasPrefix(l, "fixed:"):
			kf.Kind = "fixed"
			l = strings.TrimSpace(strings.TrimPrefix(l, "fixed:"))
		default:
			return nil, fmt.Errorf("known_findings: bad line %q", l)
		}
		head, text := l, ""
		if k := strings.Index(l, "::"); k >= 0 {
			head, text = strings.TrimSpace(l[:k]), strings.TrimSpace(l[k+2:])
		}
		for _, f := range strings.Fields(head) {
			if strings.HasPrefix(f, "property=") {
				kf.Property = strings.TrimPrefix(f, "property=")
			}
			if strings.HasPrefix(f, "obligation=") {
				kf.Obligation = strings.TrimPrefix(f, "obligation=")
			}
		}
		kf.Text = text
		if kf.Kind == "fixed" && text == "" {
			kf.Text = head
		}
		out = append(out, kf)
	}
	return out, nil
}

// baseName strips the split-instance suffix "[...]" of an obligation name.
func baseName(n string) string {
	if k := strings.Index(n, "["); k >= 0 {
		return n[:k]
	}
	return n
}

type oblReport struct {
	Name    string  `json:"name"`
	Kind    string  `json:"kind"`
	Status  string  `json:"status"`
	Solver  string  `json:"solver"`
	Seconds float64 `json:"seconds"`
	Cached  bool    `json:"from_cache,omitempty"`
	Pos     string  `json:"pos,omitempty"`
	Desc    string  `json:"desc,omitempty"`
}

func loadProps(verif string) (map[string]*PropertySpec, error) {
	data, err := os.ReadFile(filepath.Join(verif, "contracts", "properties.json"))
	if err != nil {
		return nil, err
	}
	var list []*PropertySpec
	if err := json.Unmarshal(data, &list); err != nil {
		return nil, fmt.Errorf("properties.json: %v", err)
	}
	m := map[string]*PropertySpec{}
	for _, p := range list {
		m[p.ID] = p
	}
	return m, nil
}

func matchAny(res []*regexp.Regexp, s string) bool {
	for _, r := range res {
		if r.MatchString(s) {
			return true
		}
	}
	return false
}

func compileAll(pats []string) ([]*regexp.Regexp, error) {
	var out []*regexp.Regexp
	for _, p := range pats {
		r, err := regexp.Compile(p)
		if err != nil {
			return nil, err
		}
		out = append(out, r)
	}
	return out, nil
}

// generateFor builds the FuncGens of a property: root functions matched by
// its patterns plus the transitive closure of callees under contract.
func (e *Engine) generateFor(ps *PropertySpec) ([]*FuncGen, error) {
	roots, err := compileAll(ps.Functions)
	if err != nil {
		return nil, err
	}
	lemmaRes, err := compileAll(ps.Lemmas)
	if err != nil {
		return nil, err
	}
	done := map[string]*FuncGen{}
	var order []string
	var queue []string
	for k, c := range e.cs.Funcs {
		if c.Extern || c.NoVerify {
			continue
		}
		if matchAny(roots, shortKey(k)) {
			queue = append(queue, k)
		}
	}
	sort.Strings(queue)
	for len(queue) > 0 {
		k := queue[0]
		queue = queue[1:]
		if _, ok := done[k]; ok {
			continue
		}
		c := e.cs.Funcs[k]
		fn := e.funcs[k]
		var genErr error
		if fn == nil {
			genErr = fmt.Errorf("contract for %s: the function no longer exists", shortKey(k))
		}
		g := e.NewFuncGen(fn, c)
		if genErr == nil {
			genErr = g.Generate()
		}
		if err := genErr; err != nil {
			// the contract no longer fits the function (a parameter changed type, a field or
			// a name it mentions is gone): that is a failed proof of this function, reported
			// as one failing obligation instead of an engine error
			g = e.NewFuncGen(fn, c)
			g.fname = shortKey(k)
			g.entryHeap = g.newHeap(hEntry)
			g.alloc0 = g.heapGet(g.entryHeap, "$alloc", "Int")
			g.ownMod = map[string]bool{}
			g.paramTerms = map[string]Val{}
			hc := g.declare("contract.applies", "Bool")
			g.assert(fmt.Sprintf("(= %s false)", hc))
			g.obls = []*Obligation{{Name: g.fname + "#contract.applies", Func: g.fname, Kind: "contract", Guard: "true", Goal: hc, Desc: "the contract can be read against the function as it is now: " + err.Error(), Gen: g}}
			done[k] = g
			order = append(order, k)
			continue
		}
		g.applyAbstractions()
		g.applySplits()
		done[k] = g
		order = append(order, k)
		isPartial := false
		for fr := range ps.Partial {
			if m, _ := regexp.MatchString(fr, g.fname); m {
				isPartial = true
			}
		}
		if !ps.NoClosure && !isPartial {
			var used []string
			for u := range g.usedContracts {
				used = append(used, u)
			}
			sort.Strings(used)
			for _, u := range used {
				if uc := e.cs.Funcs[u]; uc != nil && !uc.Extern && !uc.NoVerify {
					queue = append(queue, u)
				}
			}
		}
	}
	var gens []*FuncGen
	for _, k := range order {
		gens = append(gens, done[k])
	}
	if len(ps.SweepFiles) > 0 {
		sg, err := e.sweep(ps, done)
		if err != nil {
			return nil, err
		}
		gens = append(gens, sg...)
	}
	// pins of the packages that hold a function under contract here
	pinPkgs := map[string]bool{}
	for _, k := range order {
		if fn := done[k].fn; fn != nil && fn.Pkg != nil {
			pinPkgs[fn.Pkg.Pkg.Path()] = true
		}
	}
	for _, pin := range e.cs.Pins {
		if pinPkgs[pin.PkgPath] {
			gens = append(gens, e.genPin(pin))
		}
	}
	for _, lm := range e.cs.Lemmas {
		if !matchAny(lemmaRes, lm.Name) {
			continue
		}
		g, err := e.genLemma(lm)
		if err != nil {
			return nil, err
		}
		gens = append(gens, g)
	}
	return gens, nil
}

func cmdCheck(args []string) int {
	fs := flag.NewFlagSet("check", flag.ExitOnError)
	repo := fs.String("repo", "/repo", "repository root")
	verif := fs.String("verif", "/verif", "verif root")
	tier := fs.String("tier", "", "quick|thorough (default: $VERIF_TIER or quick)")
	writeBaseline := fs.Bool("write-baseline", false, "write baseline/<id>.json from this run (only on the unchanged tree, then commit)")
	nocache := fs.Bool("nocache", false, "ignore the verdict cache")
	mut := fs.String("mut", "", "overlay mutation (selftest): relpath::old::new")
	quiet := fs.Bool("q", false, "less output")
	noEvidence := fs.Bool("noevidence", false, "do not write the evidence file (selftest runs on mutated sources)")
	id := ""
	if len(args) > 0 && !strings.HasPrefix(args[0], "-") {
		id = args[0]
		args = args[1:]
	}
	fs.Parse(args)
	if id == "" && fs.NArg() == 1 {
		id = fs.Arg(0)
	}
	if id == "" {
		fmt.Fprintln(os.Stderr, "usage: goblvc check <property-id> [--tier quick|thorough]")
		return 2
	}
	if *tier == "" {
		*tier = os.Getenv("VERIF_TIER")
	}
	if *tier == "" {
		*tier = "quick"
	}
	seed := envInt("VERIF_SEED", 0)
	t0 := time.Now()
	props, err := loadProps(*verif)
	if err != nil {
		fmt.Fprintln(os.Stderr, "engine error:", err)
		return 2
	}
	ps := props[id]
	if ps == nil {
		fmt.Fprintf(os.Stderr, "engine error: property %s not configured\n", id)
		return 2
	}
	e := NewEngine(*repo, *verif)
	e.tier = *tier
	if *mut != "" {
		parts := strings.SplitN(*mut, "::", 3)
		if len(parts) != 3 {
			fmt.Fprintln(os.Stderr, "bad -mut")
			return 2
		}
		if err := e.addMutation(parts[0], parts[1], parts[2]); err != nil {
			fmt.Fprintln(os.Stderr, "engine error:", err)
			return 2
		}
	}
	if err := e.Load(ps.Packages); err != nil {
		fmt.Fprintln(os.Stderr, "engine error: load:", err)
		return 2
	}
	if err := e.LoadContracts(); err != nil {
		fmt.Fprintln(os.Stderr, "engine error: contracts:", err)
		return 2
	}
	loadS := time.Since(t0).Seconds()
	gens, err := e.generateFor(ps)
	if err != nil {
		fmt.Fprintln(os.Stderr, "engine error: generate:", err)
		return 2
	}
	onlyRes, _ := compileAll(ps.Only)
	var obls []*Obligation
	var unsupported []string
	funcReports := map[string]*funcReport{}
	var funcOrder []string
	assumptions := map[string]bool{}
	abstracted := map[string]bool{}
	boundsNote = map[string]bool{}
	partialNote = map[string]bool{}
	for _, g := range gens {
		fr := &funcReport{Name: g.fname}
		if g.fn != nil {
			p := e.fset.Position(g.fn.Pos())
			fr.File = strings.TrimPrefix(p.Filename, e.repo+"/")
		}
		funcReports[g.fname] = fr
		funcOrder = append(funcOrder, g.fname)
		if g.unsupported != "" {
			unsupported = append(unsupported, g.fname+": "+g.unsupported)
			fr.Unsupported = g.unsupported
			continue
		}
		var keepRe *regexp.Regexp
		for fr, orx := range ps.Partial {
			if m, _ := regexp.MatchString(fr, g.fname); m {
				keepRe = regexp.MustCompile(orx)
				partialNote[g.fname+": only obligations matching "+orx+" are claimed"] = true
			}
		}
		for _, o := range g.obls {
			if len(onlyRes) > 0 && !matchAny(onlyRes, o.Name) {
				continue
			}
			if keepRe != nil && !keepRe.MatchString(o.Name) {
				continue
			}
			obls = append(obls, o)
		}
		for a := range g.assumptions {
			assumptions[a] = true
		}
		for _, bd := range g.bounded {
			boundsNote[g.fname+": "+bd] = true
		}
		for _, si := range g.staleInvs {
			fmt.Printf("STALE-INVARIANT %s: %s\n", g.fname, si)
		}
		for _, a := range g.abstracted {
			abstracted[g.fname+": "+a] = true
		}
		for a := range g.inlined {
			abstracted[g.fname+": inlined body of contract-less helper "+a] = true
		}
	}
	if len(obls) == 0 {
		fmt.Fprintln(os.Stderr, "engine error: zero obligations generated for", id)
		return 2
	}
	timeout := 45
	if *tier == "thorough" {
		timeout = 120
	}
	timeout = envInt("GOBLVC_TIMEOUT", timeout)
	sv := NewSolver(filepath.Join(*verif, ".cache"), timeout, 16)
	sv.noCache = *nocache || *writeBaseline
	sv.seed = seed
	if *tier == "thorough" {
		sv.all = true
	}
	defer sv.Close()
	baseline, provedFuncs := loadBaseline(filepath.Join(*verif, "baseline", id+".json"))
	if len(baseline) > 0 && !*writeBaseline {
		// sweep obligations that were never proved are not retried one by one
		sv.skip = func(o *Obligation) bool {
			return o.Gen.sweep && !baseline[baseName(o.Name)] && !provedFuncs[o.Func]
		}
	}
	results := runObligations(sv, obls)
	// second pass: a failed side check (safety, overflow, exactness) must not
	// be assumed afterwards - it would make everything behind it vacuous.
	{
		failedBy := map[*FuncGen]bool{}
		for _, r := range results {
			ok := oblOK(r)
			if !ok && r.O.AssumeIdx > 0 && !r.O.Gen.sweep {
				if r.O.Gen.disabled == nil {
					r.O.Gen.disabled = map[int]bool{}
				}
				r.O.Gen.disabled[r.O.AssumeIdx] = true
				failedBy[r.O.Gen] = true
			}
		}
		if len(failedBy) > 0 {
			var again []*Obligation
			var idx []int
			for i, r := range results {
				ok := oblOK(r)
				if ok && failedBy[r.O.Gen] && !r.O.WantSat {
					again = append(again, r.O)
					idx = append(idx, i)
				}
			}
			res2 := runObligations(sv, again)
			for k, i := range idx {
				results[i] = res2[k]
			}
		}
	}

	known, err := loadKnownFindings(filepath.Join(*verif, "known_findings.txt"))
	if err != nil {
		fmt.Fprintln(os.Stderr, "engine error:", err)
		return 2
	}
	sweepFuncs := map[string]bool{}
	for _, g := range gens {
		if g.sweep {
			sweepFuncs[g.fname] = true
		}
	}
	sweepObl := map[string]bool{}
	for _, o := range obls {
		if o.Gen.sweep {
			sweepObl[o.Name] = true
		}
	}
	var reports []oblReport
	discharged := 0
	required := 0
	var solverTime float64
	backends := map[string]int{}
	fromCache := 0
	var undecided []string
	var violations []string
	knownHit := map[string]bool{}
	seenNames := map[string]bool{}
	var sweepUndecided []string
	moreViolations := 0
	exit := 0
	// retry timeouts of previously proved obligations once, all together, with a
	// doubled limit (load on the machine must not raise an alarm)
	{
		var again []*Obligation
		var idx []int
		for i, r := range results {
			ok := oblOK(r)
			if !ok && (r.V.Status == "timeout" || r.V.Status == "unknown") && (baseline[baseName(r.O.Name)] || provedFuncs[r.O.Func]) {
				again = append(again, r.O)
				idx = append(idx, i)
			}
		}
		if len(again) > 0 && len(again) <= 8 {
			sv2 := NewSolver(filepath.Join(*verif, ".cache"), timeout*3, 16)
			sv2.noCap = true
			rr := runObligations(sv2, again)
			sv2.Close()
			for k, i := range idx {
				results[i] = rr[k]
			}
		}
	}
	type failGroup struct {
		base    string
		members []Result
	}
	groups := map[string]*failGroup{}
	var groupOrder []string
	for _, r := range results {
		ok := oblOK(r)
		seenNames[baseName(r.O.Name)] = true
		rep := oblReport{Name: r.O.Name, Kind: r.O.Kind, Status: r.V.Status, Solver: r.V.Solver, Seconds: r.V.Seconds, Cached: r.V.Cached, Pos: r.O.Pos, Desc: r.O.Desc}
		reports = append(reports, rep)
		solverTime += r.V.Seconds
		if r.V.Cached {
			fromCache++
		}
		fr := funcReports[r.O.Func]
		if fr != nil {
			fr.Obligations++
		}
		if ok {
			discharged++
			required++
			backends[r.V.Solver]++
			if fr != nil {
				fr.Discharged++
			}
			continue
		}
		// not discharged
		var kf *KnownFinding
		for i := range known {
			if known[i].Kind == "known" && known[i].Property == id && known[i].Obligation == baseName(r.O.Name) {
				kf = &known[i]
			}
		}
		if kf != nil {
			if !knownHit[kf.Obligation] {
				knownHit[kf.Obligation] = true
				fmt.Printf("KNOWN-FINDING: property=%s %s: %s\n", id, kf.Obligation, kf.Text)
			}
			continue
		}
		b := baseName(r.O.Name)
		if r.O.Gen.sweep && !(baseline[b] || provedFuncs[r.O.Func]) {
			// safety sweep: an instruction that was never shown safe is not claimed (and is no alarm)
			sweepUndecided = append(sweepUndecided, r.O.Name+" ("+r.V.Status+") "+r.O.Pos+" "+r.O.Desc)
			continue
		}
		required++
		if groups[b] == nil {
			groups[b] = &failGroup{base: b}
			groupOrder = append(groupOrder, b)
		}
		groups[b].members = append(groups[b].members, r)
	}
	// one report per failing obligation (all split instances / parts together)
	for _, b := range groupOrder {
		grp := groups[b]
		first := grp.members[0]
		inBase := baseline[b] || provedFuncs[first.O.Func]
		confirmed := false
		replayPath := ""
		var shown Result = first
		if len(violations) < 12 {
			tried := 0
			for _, r := range grp.members {
				if r.V.Status == "sat" && !r.O.WantSat && tried < 3 {
					tried++
					var okc bool
					replayPath, okc = e.replay(id, r, *verif)
					shown = r
					if okc {
						confirmed = true
						break
					}
				}
			}
		}
		switch {
		case confirmed:
			fmt.Printf("VIOLATION property=%s replay=%s\n", id, replayPath)
			fmt.Printf("  obligation %s refuted (%s); counterexample confirmed on the real code (%d instance(s) of this obligation fail)\n", shown.O.Name, shown.O.Desc, len(grp.members))
			violations = append(violations, b)
			exit = 1
		case inBase:
			if replayPath == "" {
				replayPath = e.writeReplayFile(id, shown, *verif, nil, "no model to replay: solver answered "+shown.V.Status)
			}
			fmt.Printf("VIOLATION property=%s replay=%s no-failing-input-found\n", id, replayPath)
			if baseline[b] {
				fmt.Printf("  obligation %s was discharged on the baseline tree and is now %s (%s) (%d instance(s) fail)\n", shown.O.Name, shown.V.Status, shown.O.Desc, len(grp.members))
			} else {
				fmt.Printf("  obligation %s is new in a function whose every obligation was discharged on the baseline tree, and is %s (%s) (%d instance(s) fail)\n", shown.O.Name, shown.V.Status, shown.O.Desc, len(grp.members))
			}
			violations = append(violations, b)
			exit = 1
		default:
			undecided = append(undecided, b+" ("+first.V.Status+")")
			if !*quiet {
				fmt.Printf("UNDECIDED %s %s [%s]\n", b, first.V.Status, first.O.Desc)
			}
		}
	}
	if moreViolations > 0 {
		fmt.Printf("  ... and %d more failing obligations (listed in the evidence file)\n", moreViolations)
	}
	// baseline obligations that were not generated at all
	var missing []string
	for n := range baseline {
		if !seenNames[n] {
			missing = append(missing, n)
		}
	}
	sort.Strings(missing)
	for _, m := range missing {
		fmt.Printf("UNDECIDED missing-obligation %s\n", m)
	}
	if len(baseline) > 0 && len(missing) == len(baseline) {
		fmt.Fprintln(os.Stderr, "engine error: every baseline obligation of", id, "is gone")
		return 2
	}
	for _, u := range unsupported {
		fmt.Printf("UNSUPPORTED %s\n", u)
	}
	for _, m := range e.missingFuncs {
		fmt.Printf("UNDECIDED missing-function %s (a contract exists, the function does not)\n", m)
	}
	// fixed findings must not reappear: nothing to do (they are ordinary obligations)

	// thorough tier: the property's own must-fail / must-pass corpus guards against vacuity holes
	if *tier == "thorough" && *mut == "" && exit == 0 {
		exe, _ := os.Executable()
		cmd := exec.Command(exe, "selftest", "-p", id, "-verif", *verif, "-repo", *repo)
		b, err := cmd.CombinedOutput()
		lines := strings.Split(strings.TrimSpace(string(b)), "\n")
		thoroughSelftest = lines[len(lines)-1]
		if err != nil {
			fmt.Print(string(b))
			fmt.Fprintln(os.Stderr, "engine error: selftest corpus of", id, "did not behave as expected")
			return 2
		}
		fmt.Printf("%s (%d entries for %s)\n", thoroughSelftest, len(lines)-1, id)
	}
	wall := time.Since(t0).Seconds()
	if len(sweepUndecided) > 0 && !*quiet {
		fmt.Printf("safety sweep: %d instructions not shown safe (not claimed; listed in the evidence)\n", len(sweepUndecided))
	}
	sweepNote = sweepUndecided
	ev := buildEvidence(id, *tier, seed, ps, reports, funcReports, funcOrder, required, discharged, solverTime, backends, fromCache, undecided, violations, known, knownHit, assumptions, abstracted, unsupported, missing, wall, loadS, timeout, e)
	os.MkdirAll(filepath.Join(*verif, "evidence"), 0o755)
	data, _ := json.MarshalIndent(ev, "", " ")
	if !*noEvidence {
		if err := os.WriteFile(filepath.Join(*verif, "evidence", id+".json"), data, 0o644); err != nil {
			fmt.Fprintln(os.Stderr, "engine error: evidence:", err)
			return 2
		}
	}
	if *writeBaseline {
		var names []string
		nm := map[string]bool{}
		bad := map[string]bool{}
		for _, r := range reports {
			ok := r.Status == "unsat" || (strings.HasPrefix(r.Kind, "cover.") && r.Status != "unsat")
			if !ok {
				bad[baseName(r.Name)] = true
			}
			// safety-sweep obligations enter the baseline only if they discharge well under the
			// limit on an uncached run: slow queries are the unstable ones and must not become alarms
			if sweepObl[r.Name] && (r.Seconds > 1.5 || r.Cached) {
				bad[baseName(r.Name)] = true
			}
			nm[baseName(r.Name)] = true
		}
		for n := range nm {
			if !bad[n] {
				names = append(names, n)
			}
		}
		sort.Strings(names)
		os.MkdirAll(filepath.Join(*verif, "baseline"), 0o755)
		var pf []string
		for _, n := range funcOrder {
			fr := funcReports[n]
			if fr.Unsupported == "" && fr.Obligations > 0 && fr.Obligations == fr.Discharged && !sweepFuncs[n] {
				pf = append(pf, n)
			}
		}
		sort.Strings(pf)
		bd, _ := json.MarshalIndent(map[string]interface{}{"property": id, "discharged": names, "functions_fully_proved": pf}, "", " ")
		os.WriteFile(filepath.Join(*verif, "baseline", id+".json"), bd, 0o644)
		fmt.Printf("baseline written: %d obligation names\n", len(names))
	}
	fmt.Printf("%s %s: %d obligations, %d discharged, %d undecided, %d known findings, %d violations, %.1fs (load %.1fs, solver %.1fs)\n",
		id, *tier, required, discharged, len(undecided), len(knownHit), len(violations), wall, loadS, solverTime)
	return exit
}

// oblOK: an ordinary obligation must be unsat; a cover obligation (vacuity
// check) fails only when the solver shows the precondition unsatisfiable.
func oblOK(r Result) bool {
	if r.O.WantSat {
		return r.V.Status != "unsat"
	}
	return r.V.Status == "unsat"
}

var sweepNote []string
var boundsNote map[string]bool
var partialNote map[string]bool
var thoroughSelftest string

func keysOf(m map[string]bool) []string {
	out := []string{}
	for k := range m {
		out = append(out, k)
	}
	sort.Strings(out)
	return out
}

func boundList() []string {
	out := []string{}
	for b := range boundsNote {
		out = append(out, b)
	}
	sort.Strings(out)
	return out
}

func nonNil(s []string) []string {
	if s == nil {
		return []string{}
	}
	return s
}

func loadBaseline(path string) (map[string]bool, map[string]bool) {
	out := map[string]bool{}
	fns := map[string]bool{}
	data, err := os.ReadFile(path)
	if err != nil {
		return out, fns
	}
	var b struct {
		Discharged []string `json:"discharged"`
		Proved     []string `json:"functions_fully_proved"`
	}
	if json.Unmarshal(data, &b) == nil {
		for _, n := range b.Discharged {
			out[n] = true
		}
		for _, n := range b.Proved {
			fns[n] = true
		}
	}
	return out, fns
}

type funcReport struct {
	Name        string `json:"name"`
	File        string `json:"file,omitempty"`
	Obligations int    `json:"obligations"`
	Discharged  int    `json:"discharged"`
	Proved      bool   `json:"all_discharged"`
	Unsupported string `json:"outside_subset,omitempty"`
}

func buildEvidence(id, tier string, seed int, ps *PropertySpec, reports []oblReport, frs map[string]*funcReport, order []string, required, discharged int, solverTime float64, backends map[string]int, fromCache int, undecided, violations []string, known []KnownFinding, knownHit map[string]bool, assumptions, abstracted map[string]bool, unsupported, missing []string, wall, loadS float64, timeout int, e *Engine) map[string]interface{} {
	var funcs []*funcReport
	proved := 0
	for _, n := range order {
		fr := frs[n]
		fr.Proved = fr.Unsupported == "" && fr.Obligations > 0 && fr.Obligations == fr.Discharged
		if fr.Proved {
			proved++
		}
		funcs = append(funcs, fr)
	}
	var samples []interface{}
	step := len(reports) / 3
	if step == 0 {
		step = 1
	}
	for i := 0; i < len(reports) && len(samples) < 3; i += step {
		samples = append(samples, reports[i])
	}
	var slow []oblReport
	for _, r := range reports {
		if r.Seconds > 5 {
			slow = append(slow, r)
		}
	}
	as := []string{}
	for a := range assumptions {
		as = append(as, a)
	}
	sort.Strings(as)
	ab := []string{}
	for a := range abstracted {
		ab = append(ab, a)
	}
	sort.Strings(ab)
	kfs := []string{}
	for k := range knownHit {
		kfs = append(kfs, k)
	}
	sort.Strings(kfs)
	trusted := append([]string{
		"go/packages + go/ssa lowering of /repo's working tree (x/tools v0.29.0)",
		"goblvc's translation of SSA and contracts to SMT-LIB (engine/*.go)",
		"solvers: z3 4.8.12, z3 5.1.0, cvc5 1.0.3 (first definite answer; cross-checked in thorough tier)",
	}, ps.Trusted...)
	level := ps.Level
	if level == "" {
		level = "proof"
	}
	cov := map[string]interface{}{
		"obligations":              required,
		"discharged":               discharged,
		"checker_cmd":              fmt.Sprintf("./bin/goblvc check %s --tier %s (per obligation: z3 -T:%d | z3-new -T:%d | cvc5 --tlimit=%d000 raced)", id, tier, timeout, timeout, timeout),
		"trusted_base":             trusted,
		"samples":                  samples,
		"functions_under_contract": funcs,
		"functions_fully_proved":   proved,
		"by_backend":               backends,
		"from_cache":               fromCache,
		"solver_seconds":           solverTime,
		"load_seconds":             loadS,
		"undecided":                nonNil(undecided),
		"known_findings":           kfs,
		"abstracted":               ab,
		"outside_subset":           nonNil(unsupported),
		"missing_baseline":         nonNil(missing),
		"slow_obligations":         slow,
		"not_decided":              ps.NotDecided,
		"sweep_not_shown_safe":     nonNil(sweepNote),
		"bounded":                  boundList(),
		"partially_claimed":        keysOf(partialNote),
		"selftest":                 thoroughSelftest,
		"violating_obligations":    nonNil(violations),
		"evaluations":              len(reports),
		"distinct_nontrivial":      len(reports),
		"rule":                     "one SMT query per obligation (per split instance and per return statement); all are distinct conditions generated from the current source",
		"integers":                 "mathematical Int; every machine-arithmetic result carries an `overflow` obligation proving it fits its Go type",
	}
	if ps.Explanation != "" {
		cov["explanation"] = ps.Explanation
	}
	return map[string]interface{}{
		"property_id": id,
		"tier":        tier,
		"seed":        seed,
		"level":       level,
		"coverage":    cov,
		"assumptions": as,
		"wall_s":      wall,
		"violations":  len(violations),
	}
}


// sweep: zero-annotation no-panic pass. Every function declared in the listed
// files that has no contract of its own is executed symbolically under a thin
// contract (pointer receiver non-nil, may modify anything); only its safe.*
// obligations are kept.
func (e *Engine) sweep(ps *PropertySpec, done map[string]*FuncGen) ([]*FuncGen, error) {
	want := map[string]bool{}
	for _, f := range ps.SweepFiles {
		want[filepath.Join(e.repo, f)] = true
	}
	var names []string
	for name, fn := range e.funcs {
		if fn.Pos() == 0 || len(fn.Blocks) == 0 || fn.Synthetic != "" || fn.Parent() != nil {
			continue
		}
		p := e.fset.Position(fn.Pos())
		if !want[p.Filename] {
			continue
		}
		if _, ok := done[name]; ok {
			continue
		}
		names = append(names, name)
	}
	sort.Strings(names)
	thinContract := func(name string) *Contract {
		fn := e.funcs[name]
		c := &Contract{Key: name, Loops: map[int]*LoopSpec{}, Modifies: []string{"*"}, Thin: true}
		if fn.Pkg != nil {
			c.PkgPath = fn.Pkg.Pkg.Path()
		}
		for j, p := range fn.Params {
			pn := fmt.Sprintf("a%d", j)
			if j == 0 && fn.Signature.Recv() != nil {
				c.Recv = "recv"
				if _, isPtr := p.Type().Underlying().(*types.Pointer); isPtr {
					ex, _ := ParseExpr("recv != nil")
					c.Requires = append(c.Requires, Clause{Expr: ex, Src: "recv != nil"})
				}
				continue
			}
			c.Params = append(c.Params, pn)
		}
		return c
	}
	run := func(infer bool) []*FuncGen {
		out := make([]*FuncGen, len(names))
		var wg sync.WaitGroup
		sem := make(chan struct{}, 8)
		for i, name := range names {
			i, name := i, name
			wg.Add(1)
			go func() {
				defer wg.Done()
				sem <- struct{}{}
				defer func() { <-sem }()
				fn := e.funcs[name]
				c := e.cs.Funcs[name]
				thin := false
				if c == nil || c.Extern || c.NoVerify {
					thin = true
					c = thinContract(name)
				} else if c.Thin {
					thin = true
				}
				g := e.NewFuncGen(fn, c)
				g.sweep = thin
				if err := g.Generate(); err != nil {
					g.unsupported = "generation error: " + err.Error()
				}
				if thin {
					var keep []*Obligation
					for _, o := range g.obls {
						if strings.HasPrefix(o.Kind, "safe.") || strings.HasPrefix(o.Kind, "cover.") || (o.Kind == "pre" && strings.Contains(o.Desc, "[inferred]")) {
							keep = append(keep, o)
						}
					}
					g.obls = keep
				} else {
					// a function with a contract of its own: its functional obligations belong to
					// the properties that list it; the sweep keeps its safety obligations only
					var keep []*Obligation
					for _, o := range g.obls {
						if strings.HasPrefix(o.Kind, "safe.") || strings.HasPrefix(o.Kind, "cover.") || (o.Kind == "pre" && strings.Contains(o.Desc, "[inferred]")) {
							keep = append(keep, o)
						}
					}
					g.obls = keep
					g.sweep = true
				}
				out[i] = g
			}()
		}
		wg.Wait()
		return out
	}
	// phase A: necessary preconditions. A parameter dereferenced unconditionally in the
	// entry block must be non-nil: that becomes a `requires` of the function's thin
	// contract, checked at its call sites (only for functions that are not executed in place).
	first := run(true)
	probe := &FuncGen{Core: &Core{}}
	for i, g := range first {
		if g == nil || !g.sweep || g.unsupported != "" {
			continue
		}
		fn := e.funcs[names[i]]
		if probe.canInline(fn) {
			continue
		}
		c := thinContract(names[i])
		added := false
		for _, o := range g.obls {
			if o.Kind != "safe.nil" || !o.InEntry {
				continue
			}
			for j, p := range fn.Params {
				if o.Goal == fmt.Sprintf("(not (= %s 0))", q("p:"+p.Name())) {
					pn := fmt.Sprintf("a%d", j)
					if j == 0 && fn.Signature.Recv() != nil {
						continue
					}
					src := pn + " != nil"
					dup := false
					for _, r := range c.Requires {
						if r.Src == src {
							dup = true
						}
					}
					if !dup {
						ex, _ := ParseExpr(src)
						c.Requires = append(c.Requires, Clause{Expr: ex, Src: src, Label: "inferred"})
						added = true
					}
				}
			}
		}
		if added {
			e.cs.Funcs[names[i]] = c
		}
	}
	out := run(false)
	return out, nil
}
