package main

// Mapping from Go types to SMT sorts, heap-map naming, datatype declarations.

import (
	"fmt"
	"go/types"
	"sort"
	"strings"
)

// World collects the sort-level declarations shared by all queries of one
// function (datatypes for struct values, heap map sorts, type ids).
type World struct {
	structs    map[string]*types.Struct // datatype name -> struct
	structName map[string]string        // datatype name -> printable Go name
	order      []string                 // declaration order (dependencies first)
	typeIDs    map[string]int
	boxes      map[string]string // sort -> declared box/unbox
	strLits    map[string]string // literal -> const name
	strOrder   []string
	fullBytes  map[string]bool // literals whose bytes are all spelled out (replay values)
	longLits   bool            // spell out the bytes of literals up to 40 characters (contracts with `bytes`)
	extraDecls []string
	useStrings bool // String theory instead of uninterpreted Str
}

func NewWorld() *World {
	return &World{structs: map[string]*types.Struct{}, structName: map[string]string{}, typeIDs: map[string]int{}, boxes: map[string]string{}, strLits: map[string]string{}, fullBytes: map[string]bool{}}
}

func shortPath(p string) string {
	p = strings.TrimPrefix(p, "github.com/invopop/gobl/")
	p = strings.TrimPrefix(p, "github.com/invopop/")
	return p
}

func typeName(t types.Type) string {
	return types.TypeString(t, func(p *types.Package) string { return shortPath(p.Path()) })
}

func q(s string) string {
	// SMT quoted symbol; strip characters not allowed inside |...|
	s = strings.ReplaceAll(s, "|", "!")
	s = strings.ReplaceAll(s, "\\", "!")
	return "|" + s + "|"
}

func isStringType(t types.Type) bool {
	b, ok := t.Underlying().(*types.Basic)
	return ok && b.Info()&types.IsString != 0
}
func isIntType(t types.Type) bool {
	b, ok := t.Underlying().(*types.Basic)
	return ok && b.Info()&types.IsInteger != 0
}
func isFloatType(t types.Type) bool {
	b, ok := t.Underlying().(*types.Basic)
	return ok && b.Info()&types.IsFloat != 0
}
func isBoolType(t types.Type) bool {
	b, ok := t.Underlying().(*types.Basic)
	return ok && b.Info()&types.IsBoolean != 0
}
func isPointer(t types.Type) bool {
	_, ok := t.Underlying().(*types.Pointer)
	return ok
}

// intRange returns the closed range of a Go integer type.
func intRange(t types.Type) (lo, hi string, ok bool) {
	b, ok2 := t.Underlying().(*types.Basic)
	if !ok2 {
		return "", "", false
	}
	switch b.Kind() {
	case types.Int, types.Int64:
		return "(- 9223372036854775808)", "9223372036854775807", true
	case types.Int32:
		return "(- 2147483648)", "2147483647", true
	case types.Int16:
		return "(- 32768)", "32767", true
	case types.Int8:
		return "(- 128)", "127", true
	case types.Uint, types.Uint64, types.Uintptr:
		return "0", "18446744073709551615", true
	case types.Uint32:
		return "0", "4294967295", true
	case types.Uint16:
		return "0", "65535", true
	case types.Uint8:
		return "0", "255", true
	case types.UntypedInt, types.UntypedRune:
		return "", "", false
	}
	return "", "", false
}

// SortOf returns the SMT sort for a Go type, declaring datatypes on demand.
func (w *World) SortOf(t types.Type) string {
	switch u := t.Underlying().(type) {
	case *types.Basic:
		switch {
		case u.Info()&types.IsBoolean != 0:
			return "Bool"
		case u.Info()&types.IsInteger != 0:
			return "Int"
		case u.Info()&types.IsFloat != 0:
			return "Real"
		case u.Info()&types.IsString != 0:
			return "Str"
		case u.Kind() == types.UnsafePointer:
			return "Int"
		case u.Kind() == types.UntypedNil:
			return "Int"
		}
		return "Int"
	case *types.Pointer, *types.Map, *types.Chan, *types.Signature:
		return "Int"
	case *types.Slice:
		return "Slice"
	case *types.Interface:
		return "Iface"
	case *types.Struct:
		return w.structSort(t, u)
	case *types.Array:
		return "(Array Int " + w.SortOf(u.Elem()) + ")"
	case *types.Tuple:
		return "Int"
	}
	return "Int"
}

func (w *World) structSort(t types.Type, st *types.Struct) string {
	name := "S:" + typeName(t)
	if _, ok := w.structs[name]; ok {
		return q(name)
	}
	w.structs[name] = st
	w.structName[name] = typeName(t)
	// declare dependencies first
	for i := 0; i < st.NumFields(); i++ {
		w.SortOf(st.Field(i).Type())
	}
	w.order = append(w.order, name)
	return q(name)
}

// fieldSel returns the selector function name for field i of struct type t.
func (w *World) fieldSel(t types.Type, i int) string {
	st := t.Underlying().(*types.Struct)
	w.SortOf(t)
	return q("f:" + typeName(t) + "." + st.Field(i).Name())
}
func (w *World) ctor(t types.Type) string {
	w.SortOf(t)
	return q("mk:" + typeName(t))
}

// Zero returns the zero value term for a Go type.
func (w *World) Zero(t types.Type) string {
	switch u := t.Underlying().(type) {
	case *types.Basic:
		switch {
		case u.Info()&types.IsBoolean != 0:
			return "false"
		case u.Info()&types.IsInteger != 0:
			return "0"
		case u.Info()&types.IsFloat != 0:
			return "0.0"
		case u.Info()&types.IsString != 0:
			return w.StrLit("")
		}
		return "0"
	case *types.Pointer, *types.Map, *types.Chan, *types.Signature:
		return "0"
	case *types.Slice:
		return "(mk_slice 0 0 0 0)" // literal value: cvc5 wants a constant inside (as const ...)
	case *types.Interface:
		return "(mk_iface 0 0)"
	case *types.Struct:
		if u.NumFields() == 0 {
			return w.ctor(t)
		}
		parts := []string{w.ctor(t)}
		for i := 0; i < u.NumFields(); i++ {
			parts = append(parts, w.Zero(u.Field(i).Type()))
		}
		return "(" + strings.Join(parts, " ") + ")"
	case *types.Array:
		return "((as const " + w.SortOf(t) + ") " + w.Zero(u.Elem()) + ")"
	}
	return "0"
}

// StrLit returns a term for a string literal.
func (w *World) StrLit(s string) string {
	if w.useStrings {
		return smtStringLit(s)
	}
	if c, ok := w.strLits[s]; ok {
		return c
	}
	c := q(fmt.Sprintf("str:%d:%s", len(w.strOrder), sanitize(s)))
	w.strLits[s] = c
	w.strOrder = append(w.strOrder, s)
	return c
}

func sanitize(s string) string {
	var b strings.Builder
	for _, r := range s {
		if r > 32 && r < 127 && r != '|' && r != '\\' && r != '"' && r != ';' {
			b.WriteRune(r)
		} else {
			fmt.Fprintf(&b, "_%x_", r)
		}
	}
	if b.Len() > 40 {
		return b.String()[:40]
	}
	return b.String()
}

func smtStringLit(s string) string {
	var b strings.Builder
	b.WriteByte('"')
	for _, c := range []byte(s) {
		switch {
		case c == '"':
			b.WriteString("\"\"")
		case c >= 32 && c < 127 && c != '\\':
			b.WriteByte(c)
		default:
			fmt.Fprintf(&b, "\\u{%x}", c)
		}
	}
	b.WriteByte('"')
	return b.String()
}

// TypeID returns a distinct positive integer for a concrete Go type
// (dynamic type tag of interface values).
func (w *World) TypeID(t types.Type) int {
	k := typeName(t)
	if id, ok := w.typeIDs[k]; ok {
		return id
	}
	id := len(w.typeIDs) + 1
	w.typeIDs[k] = id
	return id
}

// Box/Unbox: interface payload encoding for a sort.
func (w *World) Box(t types.Type, v string) string {
	s := w.SortOf(t)
	if s == "Int" {
		return v
	}
	w.ensureBox(s)
	return "(" + q("box:"+s) + " " + v + ")"
}
func (w *World) Unbox(t types.Type, v string) string {
	s := w.SortOf(t)
	if strings.HasPrefix(v, "(i_val (mk_iface ") {
		if parts := splitSexp(v[7 : len(v)-1]); len(parts) == 3 {
			v = parts[2]
			if s != "Int" && strings.HasPrefix(v, "("+q("box:"+s)+" ") {
				if bp := splitSexp(v); len(bp) == 2 {
					return bp[1]
				}
			}
		}
	}
	if s == "Int" {
		return v
	}
	w.ensureBox(s)
	return "(" + q("unbox:"+s) + " " + v + ")"
}
func (w *World) ensureBox(s string) {
	if _, ok := w.boxes[s]; ok {
		return
	}
	w.boxes[s] = s
}

// Prelude emits sort/datatype declarations. Must be called after all terms
// were built (declarations are collected lazily).
func (w *World) Prelude(body string) string {
	var b strings.Builder
	usesStrlen := strings.Contains(body, "(strlen ")
	usesByte := strings.Contains(body, "(|str.byte| ")
	if w.useStrings {
		b.WriteString("(define-sort Str () String)\n")
		b.WriteString("(define-fun strlen ((s Str)) Int (str.len s))\n")
	} else {
		b.WriteString("(declare-sort Str 0)\n")
		b.WriteString("(declare-fun strlen (Str) Int)\n")
		if usesByte {
			b.WriteString("(declare-fun |str.byte| (Str Int) Int)\n")
			b.WriteString("(assert (forall ((s Str) (i Int)) (! (and (<= 0 (|str.byte| s i)) (<= (|str.byte| s i) 255)) :pattern ((|str.byte| s i)))))\n")
		}
		if usesStrlen {
			b.WriteString("(assert (forall ((s Str)) (! (and (>= (strlen s) 0) (<= (strlen s) 9223372036854775807)) :pattern ((strlen s)))))\n")
		}
	}
	b.WriteString("(declare-datatypes ((Slice 0)) (((mk_slice (s_arr Int) (s_off Int) (s_len Int) (s_cap Int)))))\n")
	b.WriteString("(define-fun nil_slice () Slice (mk_slice 0 0 0 0))\n")
	if strings.Contains(body, "(sidx ") {
		// element position of index i of slice s in its backing array; a declared function
		// (not a macro) so that it can serve as a quantifier trigger free of arithmetic
		b.WriteString("(declare-fun sidx (Slice Int) Int)\n")
		b.WriteString("(assert (forall ((s Slice) (i Int)) (! (= (sidx s i) (+ (s_off s) i)) :pattern ((sidx s i)))))\n")
	}
	b.WriteString("(declare-datatypes ((Iface 0)) (((mk_iface (i_typ Int) (i_val Int)))))\n")
	b.WriteString("(define-fun nil_iface () Iface (mk_iface 0 0))\n")
	b.WriteString("(define-fun tdiv ((a Int) (b Int)) Int (ite (>= a 0) (ite (> b 0) (div a b) (- (div a (- b)))) (ite (> b 0) (- (div (- a) b)) (div (- a) (- b)))))\n")
	b.WriteString("(define-fun trem ((a Int) (b Int)) Int (- a (* b (tdiv a b))))\n")
	b.WriteString("(define-fun iabs ((a Int)) Int (ite (>= a 0) a (- a)))\n")
	b.WriteString("(define-fun rabs ((a Real)) Real (ite (>= a 0.0) a (- a)))\n")
	if strings.Contains(body, "(pow2 ") {
		var pb strings.Builder
		for k := 0; k <= 62; k++ {
			fmt.Fprintf(&pb, "(ite (= n %d) %d ", k, int64(1)<<uint(k))
		}
		pb.WriteString("0")
		pb.WriteString(strings.Repeat(")", 63))
		b.WriteString("(define-fun pow2 ((n Int)) Int " + pb.String() + ")\n")
	}
	b.WriteString("(define-fun imin ((a Int) (b Int)) Int (ite (<= a b) a b))\n")
	b.WriteString("(define-fun imax ((a Int) (b Int)) Int (ite (>= a b) a b))\n")
	for _, name := range w.order {
		st := w.structs[name]
		gn := w.structName[name]
		fmt.Fprintf(&b, "(declare-datatypes ((%s 0)) (((%s", q(name), q("mk:"+gn))
		for i := 0; i < st.NumFields(); i++ {
			fmt.Fprintf(&b, " (%s %s)", q("f:"+gn+"."+st.Field(i).Name()), w.SortOf(st.Field(i).Type()))
		}
		b.WriteString("))))\n")
	}
	if !w.useStrings {
		// string literals are pairwise distinct, with known lengths
		if len(w.strOrder) > 0 {
			var names []string
			for _, s := range w.strOrder {
				c := w.strLits[s]
				fmt.Fprintf(&b, "(declare-const %s Str)\n", c)
				if usesStrlen {
					fmt.Fprintf(&b, "(assert (= (strlen %s) %d))\n", c, len(s))
				}
				if usesByte && (len(s) <= 4 || w.fullBytes[s] || (w.longLits && len(s) <= 40)) {
					for i := 0; i < len(s); i++ {
						fmt.Fprintf(&b, "(assert (= (|str.byte| %s %d) %d))\n", c, i, s[i])
					}
				}
				names = append(names, c)
			}
			if len(names) > 1 {
				fmt.Fprintf(&b, "(assert (distinct %s))\n", strings.Join(names, " "))
			}
		}
		// the empty string is the only string of length zero
		if c, ok := w.strLits[""]; ok && usesStrlen {
			fmt.Fprintf(&b, "(assert (forall ((s Str)) (! (=> (= (strlen s) 0) (= s %s)) :pattern ((strlen s)))))\n", c)
		}
	}
	var bs []string
	for s := range w.boxes {
		bs = append(bs, s)
	}
	sort.Strings(bs)
	for _, s := range bs {
		fmt.Fprintf(&b, "(declare-fun %s (%s) Int)\n", q("box:"+s), s)
		fmt.Fprintf(&b, "(declare-fun %s (Int) %s)\n", q("unbox:"+s), s)
		fmt.Fprintf(&b, "(assert (forall ((x %s)) (! (= (%s (%s x)) x) :pattern ((%s x)))))\n", s, q("unbox:"+s), q("box:"+s), q("box:"+s))
	}
	for _, d := range w.extraDecls {
		b.WriteString(d)
		b.WriteString("\n")
	}
	return b.String()
}
