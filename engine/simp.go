package main

// Light syntactic simplification of SMT terms built by the engine, so that
// the solvers see direct terms (accessor-of-constructor, select-of-store on
// identical indices) instead of having to derive them.

import "strings"

// splitSexp splits "(f a b c)" into ["f","a","b","c"]; returns nil if s is an atom.
func splitSexp(s string) []string {
	if len(s) < 2 || s[0] != '(' || s[len(s)-1] != ')' {
		return nil
	}
	var out []string
	depth := 0
	start := -1
	i := 1
	n := len(s) - 1
	for i < n {
		c := s[i]
		switch {
		case c == ' ' || c == '\n' || c == '\t':
			if depth == 0 && start >= 0 {
				out = append(out, s[start:i])
				start = -1
			}
			i++
		case c == '|':
			if start < 0 {
				start = i
			}
			j := strings.IndexByte(s[i+1:n], '|')
			if j < 0 {
				return nil
			}
			i += j + 2
		case c == '"':
			if start < 0 {
				start = i
			}
			j := i + 1
			for j < n {
				if s[j] == '"' {
					if j+1 < n && s[j+1] == '"' {
						j += 2
						continue
					}
					break
				}
				j++
			}
			i = j + 1
		case c == '(':
			if start < 0 {
				start = i
			}
			depth++
			i++
		case c == ')':
			depth--
			i++
			if depth == 0 && start >= 0 {
				out = append(out, s[start:i])
				start = -1
			}
		default:
			if start < 0 {
				start = i
			}
			i++
		}
	}
	if start >= 0 {
		out = append(out, s[start:n])
	}
	return out
}

// selOfCtor simplifies (sel (ctor a0 ... an)) to ai.
func (w *World) selApply(sel string, ctor string, idx int, term string) string {
	if strings.HasPrefix(term, "("+ctor+" ") {
		parts := splitSexp(term)
		if parts != nil && len(parts) > idx+1 && parts[0] == ctor {
			return parts[idx+1]
		}
	}
	return "(" + sel + " " + term + ")"
}
