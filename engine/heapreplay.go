package main

// Replay of models with heap-shaped inputs: the objects reachable from the
// parameters (bounded depth, slices up to 3 elements, maps over the strings
// that occur in the model) are read out of the solver's model, rebuilt as Go
// values in an injected in-package test, the real function is run, and the
// violation counts as confirmed when the real results coincide with the ones
// the model predicts for the refuted path (heap-pure functions) or the code
// panics (safety obligations).

import (
	"bytes"
	"context"
	"fmt"
	"go/types"
	"os"
	"os/exec"
	"path/filepath"
	"sort"
	"strings"
	"time"
)

const (
	hrDepth = 4
	hrLen   = 3
)

type heapProbe struct {
	g       *FuncGen
	in      *types.Package
	collect bool
	terms   []string
	seen    map[string]bool
	vals    map[string]string
	strs    []string // Str-sorted probe terms (candidate map keys)
	stmts   []string
	memo    map[string]string
	nvar    int
	imports map[string]bool
	fail    string
	strName map[string]string // abstract Str value -> Go literal
	mapsToProbe []mapProbe
	keyTerms    []string
}

func (p *heapProbe) v(term string) string {
	if p.collect {
		if !p.seen[term] {
			p.seen[term] = true
			p.terms = append(p.terms, term)
		}
		return ""
	}
	return p.vals[term]
}

func (p *heapProbe) tname(t types.Type) string {
	return types.TypeString(t, func(pk *types.Package) string {
		if pk == p.in {
			return ""
		}
		p.imports[pk.Path()] = true
		return pk.Name()
	})
}

func (p *heapProbe) newVar() string {
	p.nvar++
	return fmt.Sprintf("o%d", p.nvar)
}

func (p *heapProbe) hmap(m MapRef) string {
	return p.g.heapGet(p.g.entryHeap, m.Name, m.Sort)
}

// build returns a Go expression for the value denoted by SMT term `term` of Go type t.
func (p *heapProbe) build(term string, t types.Type, depth int) string {
	if p.fail != "" {
		return "nil"
	}
	g := p.g
	switch u := t.Underlying().(type) {
	case *types.Basic:
		val := p.v(term)
		switch {
		case u.Info()&types.IsBoolean != 0:
			if p.collect {
				return ""
			}
			return p.tname(t) + "(" + val + ")"
		case u.Info()&types.IsInteger != 0:
			if p.collect {
				return ""
			}
			n, ok := smtIntLit(val)
			if !ok {
				p.fail = "integer value not a literal: " + val
				return "0"
			}
			return p.tname(t) + "(" + n + ")"
		case u.Info()&types.IsString != 0:
			if p.collect {
				p.strs = append(p.strs, term)
				return ""
			}
			return p.tname(t) + "(" + p.goString(val) + ")"
		}
		p.fail = "basic type " + t.String()
		return "0"
	case *types.Struct:
		named, _ := t.(*types.Named)
		samePkg := named != nil && named.Obj().Pkg() == p.in
		if named != nil && named.Obj().Pkg() != nil && named.Obj().Pkg().Path() == "github.com/invopop/gobl/num" && !samePkg {
			switch named.Obj().Name() {
			case "Amount":
				v := p.build(g.w.selApply(g.w.fieldSel(t, 0), g.w.ctor(t), 0, term), u.Field(0).Type(), depth)
				e := p.build(g.w.selApply(g.w.fieldSel(t, 1), g.w.ctor(t), 1, term), u.Field(1).Type(), depth)
				p.imports["github.com/invopop/gobl/num"] = true
				return fmt.Sprintf("num.MakeAmount(%s, %s)", v, e)
			case "Percentage":
				at := u.Field(0).Type()
				au := at.Underlying().(*types.Struct)
				inner := g.w.selApply(g.w.fieldSel(t, 0), g.w.ctor(t), 0, term)
				v := p.build(g.w.selApply(g.w.fieldSel(at, 0), g.w.ctor(at), 0, inner), au.Field(0).Type(), depth)
				e := p.build(g.w.selApply(g.w.fieldSel(at, 1), g.w.ctor(at), 1, inner), au.Field(1).Type(), depth)
				p.imports["github.com/invopop/gobl/num"] = true
				return fmt.Sprintf("num.MakePercentage(%s, %s)", v, e)
			}
		}
		var fs []string
		for i := 0; i < u.NumFields(); i++ {
			f := u.Field(i)
			sub := g.w.selApply(g.w.fieldSel(t, i), g.w.ctor(t), i, term)
			if !f.Exported() && !samePkg {
				p.build(sub, f.Type(), 0) // still probe, value dropped
				continue
			}
			fs = append(fs, f.Name()+": "+p.build(sub, f.Type(), depth))
		}
		return p.tname(t) + "{" + strings.Join(fs, ", ") + "}"
	case *types.Pointer:
		ref := p.v(term)
		st, isStruct := u.Elem().Underlying().(*types.Struct)
		if !p.collect {
			if ref == "0" {
				return "nil"
			}
			key := typeName(u.Elem()) + "@" + ref
			if vn, ok := p.memo[key]; ok {
				return vn
			}
			if depth <= 0 {
				p.fail = "object graph deeper than the replay bound"
				return "nil"
			}
			vn := p.newVar()
			p.memo[key] = vn
			if named, ok := u.Elem().(*types.Named); ok && named.Obj().Pkg() != nil && named.Obj().Pkg() != p.in && named.Obj().Pkg().Path() == "github.com/invopop/gobl/num" && isStruct {
				// value types of package num: rebuilt through their constructors
				var parts []string
				for i := 0; i < st.NumFields(); i++ {
					fm := g.fieldMap(u.Elem(), i)
					parts = append(parts, fmt.Sprintf("(select %s %s)", p.hmap(fm), term))
				}
				whole := "(" + g.w.ctor(u.Elem()) + " " + strings.Join(parts, " ") + ")"
				e := p.build(whole, u.Elem(), depth-1)
				p.stmts = append(p.stmts, fmt.Sprintf("%s := new(%s)", vn, p.tname(u.Elem())))
				p.stmts = append(p.stmts, fmt.Sprintf("*%s = %s", vn, e))
				return vn
			}
			if isStruct {
				p.stmts = append(p.stmts, fmt.Sprintf("%s := &%s{}", vn, p.tname(u.Elem())))
				named, _ := u.Elem().(*types.Named)
				samePkg := named != nil && named.Obj().Pkg() == p.in
				for i := 0; i < st.NumFields(); i++ {
					f := st.Field(i)
					fm := g.fieldMap(u.Elem(), i)
					sub := fmt.Sprintf("(select %s %s)", p.hmap(fm), term)
					if !f.Exported() && !samePkg {
						continue
					}
					e := p.build(sub, f.Type(), depth-1)
					p.stmts = append(p.stmts, fmt.Sprintf("%s.%s = %s", vn, f.Name(), e))
				}
			} else {
				cm := g.cellMap(u.Elem())
				e := p.build(fmt.Sprintf("(select %s %s)", p.hmap(cm), term), u.Elem(), depth-1)
				p.stmts = append(p.stmts, fmt.Sprintf("%s := new(%s)", vn, p.tname(u.Elem())))
				p.stmts = append(p.stmts, fmt.Sprintf("*%s = %s", vn, e))
			}
			return vn
		}
		// collect mode: follow blindly
		if depth <= 0 {
			return ""
		}
		if isStruct {
			for i := 0; i < st.NumFields(); i++ {
				fm := g.fieldMap(u.Elem(), i)
				p.build(fmt.Sprintf("(select %s %s)", p.hmap(fm), term), st.Field(i).Type(), depth-1)
			}
		} else if _, isArr := u.Elem().Underlying().(*types.Array); !isArr {
			cm := g.cellMap(u.Elem())
			p.build(fmt.Sprintf("(select %s %s)", p.hmap(cm), term), u.Elem(), depth-1)
		}
		return ""
	case *types.Slice:
		em := g.elemMap(u.Elem())
		ln := p.v(fmt.Sprintf("(s_len %s)", term))
		arr := p.v(fmt.Sprintf("(s_arr %s)", term))
		elemTerm := func(i int) string {
			return fmt.Sprintf("(select (select %s (s_arr %s)) (sidx %s %d))", p.hmap(em), term, term, i)
		}
		if p.collect {
			if depth > 0 {
				for i := 0; i < hrLen; i++ {
					p.build(elemTerm(i), u.Elem(), depth-1)
				}
			}
			return ""
		}
		n, ok := smtIntLit(ln)
		if !ok {
			p.fail = "slice length not a literal"
			return "nil"
		}
		var cnt int
		fmt.Sscanf(n, "%d", &cnt)
		if cnt == 0 {
			if arr == "0" {
				return "nil"
			}
			return p.tname(t) + "{}"
		}
		if cnt > hrLen || cnt < 0 || depth <= 0 {
			p.fail = fmt.Sprintf("slice of length %d beyond the replay bound", cnt)
			return "nil"
		}
		var es []string
		for i := 0; i < cnt; i++ {
			es = append(es, p.build(elemTerm(i), u.Elem(), depth-1))
		}
		return p.tname(t) + "{" + strings.Join(es, ", ") + "}"
	case *types.Map:
		if !isStringType(u.Key()) {
			if !p.collect && p.v(term) != "0" {
				p.fail = "map with non-string keys"
			}
			p.v(term)
			return "nil"
		}
		md, mv := g.mapDom(u, nil), g.mapVal(u, nil)
		ref := p.v(term)
		if p.collect {
			p.mapsToProbe = append(p.mapsToProbe, mapProbe{term: term, dom: p.hmap(md), val: p.hmap(mv), t: u, typ: t})
			return ""
		}
		if ref == "0" {
			return "nil"
		}
		vn := p.newVar()
		p.stmts = append(p.stmts, fmt.Sprintf("%s := %s{}", vn, p.tname(t)))
		done := map[string]bool{}
		for _, kt := range p.keyTerms {
			in := p.vals[fmt.Sprintf("(select (select %s %s) %s)", p.hmap(md), term, kt)]
			if in != "true" {
				continue
			}
			kv := p.vals[kt]
			if done[kv] {
				continue
			}
			done[kv] = true
			valTerm := fmt.Sprintf("(select (select %s %s) %s)", p.hmap(mv), term, kt)
			e := p.build(valTerm, u.Elem(), depth-1)
			p.stmts = append(p.stmts, fmt.Sprintf("%s[%s(%s)] = %s", vn, p.tname(u.Key()), p.goString(kv), e))
		}
		return vn
	case *types.Interface:
		typ := p.v(fmt.Sprintf("(i_typ %s)", term))
		if !p.collect && typ != "0" {
			p.fail = "non-nil interface value in the model"
		}
		return "nil"
	}
	p.fail = "type outside the replay subset: " + t.String()
	return "nil"
}

type mapProbe struct {
	term, dom, val string
	t              *types.Map
	typ            types.Type
}

func (p *heapProbe) goString(abstract string) string {
	if p.g.w.useStrings {
		if strings.HasPrefix(abstract, "\"") {
			return smtStringToGo(abstract)
		}
		return "\"\""
	}
	if s, ok := p.strName[abstract]; ok {
		return s
	}
	s := fmt.Sprintf("%q", "s"+strings.NewReplacer("Str!val!", "", "!", "").Replace(abstract))
	p.strName[abstract] = s
	return s
}

// replayHeap: see the file comment. handled=false means "not applicable here".
func (e *Engine) replayHeap(id string, r Result, verif string, rec *replayRecord) (string, bool, bool) {
	g := r.O.Gen
	fn := g.fn
	if fn == nil || g.c == nil || fn.Pkg == nil {
		return "", false, false
	}
	o := r.O
	part := r.V.Part
	var resTerms []string
	if len(o.Parts) > 0 && part < len(o.Parts) {
		resTerms = o.Parts[part].Results
	}
	isSafety := strings.HasPrefix(o.Kind, "safe.")
	if !isSafety && (o.Kind != "post" || len(g.c.Modifies) > 0) {
		return "", false, false
	}
	p := &heapProbe{g: g, in: fn.Pkg.Pkg, seen: map[string]bool{}, vals: map[string]string{}, memo: map[string]string{}, imports: map[string]bool{"fmt": true, "testing": true}, strName: map[string]string{}}
	var cnames []string
	if g.c.Recv != "" {
		cnames = append(cnames, g.c.Recv)
	}
	cnames = append(cnames, g.c.Params...)
	// phase 1: collect probe terms
	p.collect = true
	for i, prm := range fn.Params {
		p.build(g.paramTerms[cnames[i]].Term, prm.Type(), hrDepth)
	}
	for _, rt := range resTerms {
		p.v(rt)
	}
	// candidate map keys: string-valued probe terms and the literals of the query
	keyTerms := append([]string{}, p.strs...)
	for _, lit := range g.w.strOrder {
		keyTerms = append(keyTerms, g.w.strLits[lit])
	}
	if len(keyTerms) > 12 {
		keyTerms = keyTerms[:12]
	}
	p.keyTerms = keyTerms
	for _, kt := range keyTerms {
		p.v(kt)
	}
	for _, mp := range p.mapsToProbe {
		for _, kt := range keyTerms {
			p.v(fmt.Sprintf("(select (select %s %s) %s)", mp.dom, mp.term, kt))
			valTerm := fmt.Sprintf("(select (select %s %s) %s)", mp.val, mp.term, kt)
			p.build(valTerm, mp.t.Elem(), 1)
		}
	}
	if len(p.terms) == 0 || len(p.terms) > 4000 {
		return "", false, false
	}
	// phase 2: one solver run for the model values
	q := g.QueryPart(o, part, false)
	q = strings.TrimSuffix(strings.TrimSpace(q), "(check-sat)")
	var sb strings.Builder
	sb.WriteString(q)
	sb.WriteString("\n(check-sat)\n")
	for i := 0; i < len(p.terms); i += 50 {
		j := i + 50
		if j > len(p.terms) {
			j = len(p.terms)
		}
		sb.WriteString("(get-value (" + strings.Join(p.terms[i:j], " ") + "))\n")
	}
	tmp, _ := os.MkdirTemp("", "goblvc-hr")
	defer os.RemoveAll(tmp)
	qf := filepath.Join(tmp, "q.smt2")
	os.WriteFile(qf, []byte(sb.String()), 0o644)
	ctx, cancel := context.WithTimeout(context.Background(), 60*time.Second)
	defer cancel()
	var out bytes.Buffer
	cmd := exec.CommandContext(ctx, "z3-new", "-T:45", qf)
	cmd.Stdout = &out
	cmd.Stderr = &out
	cmd.Run()
	text := out.String()
	if firstLine(text) != "sat" {
		return e.writeReplayFile(id, r, verif, rec, "model extraction for heap replay: solver answered "+firstLine(text)), false, true
	}
	body := text[strings.Index(text, "\n")+1:]
	// parse consecutive ((t v) ...) groups
	idx := 0
	for _, grp := range topLevelSexps(body) {
		pairs := splitSexp("(x " + strings.TrimSpace(grp[1:len(grp)-1]) + ")")
		for _, pr := range pairs[1:] {
			kv := splitSexp("(x " + strings.TrimSpace(pr[1:len(pr)-1]) + ")")
			if len(kv) == 3 && idx < len(p.terms) {
				p.vals[p.terms[idx]] = kv[2]
				idx++
			}
		}
	}
	if idx != len(p.terms) {
		return e.writeReplayFile(id, r, verif, rec, "model extraction for heap replay: could not parse the values"), false, true
	}
	// literals' abstract values map to their real text
	for _, lit := range g.w.strOrder {
		if v, ok := p.vals[g.w.strLits[lit]]; ok {
			p.strName[v] = fmt.Sprintf("%q", lit)
		}
	}
	// phase 3: build the Go inputs
	p.collect = false
	var argExprs []string
	for i, prm := range fn.Params {
		argExprs = append(argExprs, p.build(g.paramTerms[cnames[i]].Term, prm.Type(), hrDepth))
	}
	if p.fail != "" {
		return e.writeReplayFile(id, r, verif, rec, "heap replay not possible: "+p.fail), false, true
	}
	sig := fn.Signature
	var call string
	if sig.Recv() != nil {
		call = fmt.Sprintf("(%s).%s(%s)", argExprs[0], fn.Name(), strings.Join(argExprs[1:], ", "))
	} else {
		call = fmt.Sprintf("%s(%s)", fn.Name(), strings.Join(argExprs, ", "))
	}
	nres := sig.Results().Len()
	var lhs, prints []string
	for i := 0; i < nres; i++ {
		lhs = append(lhs, fmt.Sprintf("r%d", i))
		rt := sig.Results().At(i).Type()
		var pe string
		switch u := rt.Underlying().(type) {
		case *types.Basic:
			switch {
			case u.Info()&types.IsBoolean != 0:
				pe = fmt.Sprintf("fmt.Sprintf(\"%%t\", bool(r%d))", i)
			case u.Info()&types.IsInteger != 0:
				pe = fmt.Sprintf("fmt.Sprintf(\"%%d\", int64(r%d))", i)
			default:
				pe = "\"?\""
			}
		case *types.Interface, *types.Pointer, *types.Map, *types.Slice:
			pe = fmt.Sprintf("fmt.Sprintf(\"nil=%%t\", r%d == nil)", i)
		default:
			pe = "\"?\""
		}
		prints = append(prints, fmt.Sprintf("\tfmt.Printf(\"GOBLVC-RESULT %d %%s\\n\", %s)", i, pe))
	}
	var src bytes.Buffer
	fmt.Fprintf(&src, "package %s\n\nimport (\n", p.in.Name())
	var imps []string
	for k := range p.imports {
		imps = append(imps, k)
	}
	sort.Strings(imps)
	for _, k := range imps {
		fmt.Fprintf(&src, "\t%q\n", k)
	}
	src.WriteString(")\n\nfunc TestGoblvcReplay(t *testing.T) {\n")
	src.WriteString("\tdefer func() {\n\t\tif r := recover(); r != nil {\n\t\t\tfmt.Printf(\"GOBLVC-PANIC %v\\n\", r)\n\t\t}\n\t}()\n")
	for _, s := range p.stmts {
		src.WriteString("\t" + s + "\n")
	}
	for k := 1; k <= p.nvar; k++ {
		fmt.Fprintf(&src, "\t_ = o%d\n", k)
	}
	if nres > 0 {
		fmt.Fprintf(&src, "\t%s := %s\n", strings.Join(lhs, ", "), call)
	} else {
		fmt.Fprintf(&src, "\t%s\n", call)
	}
	for _, pr := range prints {
		src.WriteString(pr + "\n")
	}
	src.WriteString("\tfmt.Println(\"GOBLVC-DONE\")\n}\n")
	rec.GoTest = src.String()
	rec.Model = map[string]string{}
	for i, t := range p.terms {
		if i < 60 {
			rec.Model[t] = p.vals[t]
		}
	}
	runOut, err := e.runInjectedTest(fn.Pkg.Pkg.Path(), src.String())
	rec.RunOutput = truncate(runOut, 4000)
	if err != nil && !strings.Contains(runOut, "GOBLVC-") {
		return e.writeReplayFile(id, r, verif, rec, "heap replay build/run failed: "+truncate(err.Error(), 200)), false, true
	}
	if strings.Contains(runOut, "GOBLVC-PANIC") {
		if isSafety {
			rec.Verdict = "confirmed: the real code panics on the input rebuilt from the model"
			return e.writeReplayFile(id, r, verif, rec, ""), true, true
		}
		rec.Verdict = "the real code panics on the input rebuilt from the model (obligation was not a safety obligation)"
		return e.writeReplayFile(id, r, verif, rec, ""), true, true
	}
	if isSafety {
		rec.Verdict = "not confirmed: no panic on the input rebuilt from the model (objects outside the replay bound, or an over-approximated callee)"
		return e.writeReplayFile(id, r, verif, rec, ""), false, true
	}
	// compare observed results with the model's prediction for the refuted path
	if len(resTerms) != nres || nres == 0 {
		return e.writeReplayFile(id, r, verif, rec, "no result terms recorded for this return"), false, true
	}
	all := true
	var cmp []string
	for i := 0; i < nres; i++ {
		var got string
		for _, l := range strings.Split(runOut, "\n") {
			pre := fmt.Sprintf("GOBLVC-RESULT %d ", i)
			if strings.HasPrefix(l, pre) {
				got = strings.TrimSpace(strings.TrimPrefix(l, pre))
			}
		}
		mv := p.vals[resTerms[i]]
		rt := sig.Results().At(i).Type()
		want := "?"
		switch u := rt.Underlying().(type) {
		case *types.Basic:
			if u.Info()&types.IsBoolean != 0 {
				want = mv
			} else if u.Info()&types.IsInteger != 0 {
				if n, ok := smtIntLit(mv); ok {
					want = n
				}
			}
		case *types.Interface:
			want = fmt.Sprintf("nil=%t", strings.HasPrefix(mv, "(mk_iface 0 "))
		case *types.Pointer, *types.Map:
			if mv == "0" {
				want = "nil=true"
			} else {
				want = "non-nil (not comparable)"
			}
		case *types.Slice:
			want = "?"
		}
		cmp = append(cmp, fmt.Sprintf("result %d: real %s, model %s", i, got, want))
		if got == "" || got != want {
			all = false
		}
	}
	if all {
		rec.Verdict = "confirmed: on the input rebuilt from the model the real code returns what the model predicts for the refuted path (" + strings.Join(cmp, "; ") + "), which violates: " + o.Desc
		return e.writeReplayFile(id, r, verif, rec, ""), true, true
	}
	rec.Verdict = "not confirmed: the real code does not follow the model's path (" + strings.Join(cmp, "; ") + ")"
	return e.writeReplayFile(id, r, verif, rec, ""), false, true
}

// topLevelSexps splits a text into its top-level parenthesised expressions.
func topLevelSexps(s string) []string {
	var out []string
	depth := 0
	start := -1
	inBar := false
	inStr := false
	for i := 0; i < len(s); i++ {
		c := s[i]
		if inStr {
			if c == '"' {
				inStr = false
			}
			continue
		}
		if c == '|' {
			inBar = !inBar
			continue
		}
		if inBar {
			continue
		}
		switch c {
		case '"':
			inStr = true
		case '(':
			if depth == 0 {
				start = i
			}
			depth++
		case ')':
			depth--
			if depth == 0 && start >= 0 {
				out = append(out, s[start:i+1])
				start = -1
			}
		}
	}
	return out
}
