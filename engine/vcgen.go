package main

// Verification-condition generation for one function: forward symbolic
// execution of the go/ssa control-flow graph, loops cut at their heads by the
// contract's invariants, calls replaced by the callee's contract.

import (
	"fmt"
	"go/token"
	"go/types"
	"sort"
	"strings"

	"golang.org/x/tools/go/ssa"
)

type Obligation struct {
	Name    string
	Func    string
	Kind    string
	Guard   string
	Goal    string
	Parts   []Part // when set: one query per part (e.g. one per return statement); all must be discharged
	Desc    string
	Pos     string
	WantSat bool // cover obligations must be satisfiable
	Gen     *FuncGen
	Extra   []string // extra assertions (split instance)
	Subst   [][2]string // textual term replacement (split instance)
	AssumeIdx int // for side checks: index+1 of the assert that assumes the check afterwards
	Inputs  []ModelVar
}

type Part struct {
	Guard, Goal string
}

type ModelVar struct {
	Name string // contract-level name (param)
	Term string // SMT term to evaluate
	Type string
}

type Addr struct {
	m     MapRef
	ref   string // object / array ref
	idx   string // element index (absolute) for elem maps, "" otherwise
	rootT types.Type
	path  []pathStep
	typ   types.Type // pointee type
	fresh bool       // root object allocated in this function (static knowledge)
	// whole-struct pointer (no single root map): base ref with struct type
	whole bool
	// non-escaping local variable tracked in the symbolic state instead of the heap
	local *ssa.Alloc
}

type pathStep struct {
	field int    // struct field index, or -1
	idx   string // array index term
	typ   types.Type
}

type edgeInfo struct {
	cond   string
	heap   *Heap
	locals map[*ssa.Alloc]string
}

type loopInfo struct {
	ord    int
	head   *ssa.BasicBlock
	body   map[*ssa.BasicBlock]bool
	mods   map[string]bool // nil = all
	parent *loopInfo
	spec   *LoopSpec
	stale  map[string]bool // invariants that no longer evaluate against the code (names gone)
	headHp *Heap
	headLocals map[*ssa.Alloc]string
}

// Core: state shared by a function under verification and the bodies of
// contract-less helper functions inlined into it.
type Core struct {
	eng   *Engine
	w     *World
	fname string // short display name of the function under contract
	rootC *Contract

	decls    []string
	declared map[string]bool
	asserts  []string
	obls     []*Obligation
	counts   map[string]int

	fresh  map[string]bool // terms statically known to be freshly allocated refs
	nonNil map[string]bool

	heapSeq   int
	heapSorts map[string]string
	entryHeap *Heap
	alloc0    string

	ownMod      map[string]bool
	modifiesAll bool
	nameSeq     int

	paramTerms map[string]Val
	resTerms   []string

	abstracted    []string
	inlined       map[string]bool
	assumptions   map[string]bool
	usedContracts map[string]bool
	unsupported   string

	reachSeq     int
	pureDecl     map[string]bool
	globalsDone  bool
	mapSortCache map[string]string
	specDefs     []string
	lemmaPres    []string
	bytesOf      map[string]string
	abstractions [][2]string
	staleInvs    []string
	mapRefKind   map[string]string
	ownFootprint []string
	disabled     map[int]bool // assumptions of failed side checks, dropped in the second pass
	posts        map[string]*postParts
	postOrder    []string
	inlineSeq    int
}

type retInfo struct {
	reach   string
	heap    *Heap
	results []string
}

type FuncGen struct {
	*Core
	fn  *ssa.Function
	c   *Contract // contract of this frame (nil for inlined helper bodies)
	pkg *types.Package

	vals   map[ssa.Value]string
	addrs  map[ssa.Value]*Addr
	tuples map[ssa.Value][]string

	edges    map[[2]int]edgeInfo
	loops    map[*ssa.BasicBlock]*loopInfo
	loopList []*loopInfo

	debugRef    map[string][]debugDef
	visited     map[*ssa.BasicBlock]string // range-over-map ghost visited sets by header
	nextKey     map[*ssa.BasicBlock]string
	localAllocs map[*ssa.Alloc]bool
	visitedMode int
	inline      map[ssa.Value]bool

	// inlined frame
	prefix  string
	depth   int
	returns []retInfo
}

type debugDef struct {
	v     ssa.Value
	block *ssa.BasicBlock
	pos   token.Pos
	addr  bool
}

type Val struct {
	Term string
	Type types.Type
}

func (g *FuncGen) declare(name, srt string) string {
	n := q(name)
	if !g.declared[n] {
		g.declared[n] = true
		g.decls = append(g.decls, fmt.Sprintf("(declare-const %s %s)", n, srt))
	}
	return n
}

// declareDeep declares a value of type t; struct values are built from one
// scalar constant per field so that accessors simplify away.
func (g *FuncGen) declareDeep(name string, t types.Type) string {
	if st, ok := t.Underlying().(*types.Struct); ok && st.NumFields() > 0 {
		parts := []string{g.w.ctor(t)}
		for i := 0; i < st.NumFields(); i++ {
			parts = append(parts, g.declareDeep(name+"."+st.Field(i).Name(), st.Field(i).Type()))
		}
		return "(" + strings.Join(parts, " ") + ")"
	}
	return g.declare(name, g.w.SortOf(t))
}

func (g *FuncGen) freshName(prefix string) string {
	g.nameSeq++
	return fmt.Sprintf("%s!%d", prefix, g.nameSeq)
}

func (g *FuncGen) freshConst(prefix, srt string) string {
	return g.declare(g.freshName(prefix), srt)
}

func (g *FuncGen) assert(s string) { g.asserts = append(g.asserts, s) }

func (g *FuncGen) newReach(parent string) string {
	g.reachSeq++
	r := g.declare(fmt.Sprintf("reach!%d", g.reachSeq), "Bool")
	if parent != "" {
		g.assert(fmt.Sprintf("(=> %s %s)", r, parent))
	}
	return r
}

func (g *FuncGen) oblige(kind, label, guard, goal, desc string, pos token.Pos) *Obligation {
	g.counts[kind]++
	name := fmt.Sprintf("%s#%s.%d", g.fname, kind, g.counts[kind])
	if label != "" {
		name += ":" + label
	}
	o := &Obligation{Name: name, Func: g.fname, Kind: kind, Guard: guard, Goal: goal, Desc: desc, Gen: g}
	if pos.IsValid() {
		p := g.eng.fset.Position(pos)
		o.Pos = fmt.Sprintf("%s:%d", strings.TrimPrefix(p.Filename, g.eng.repo+"/"), p.Line)
	}
	g.obls = append(g.obls, o)
	return o
}

type State struct {
	reach  string
	heap   *Heap
	locals map[*ssa.Alloc]string
}

func copyLocals(m map[*ssa.Alloc]string) map[*ssa.Alloc]string {
	n := make(map[*ssa.Alloc]string, len(m))
	for k, v := range m {
		n[k] = v
	}
	return n
}

// isLocalAlloc: the address of the variable never leaves the function and is
// only used for (field-wise) loads and stores.
func (g *FuncGen) isLocalAlloc(a *ssa.Alloc) bool {
	if v, ok := g.localAllocs[a]; ok {
		return v
	}
	ok := true
	var chk func(v ssa.Value, depth int)
	chk = func(v ssa.Value, depth int) {
		refs := v.Referrers()
		if refs == nil {
			ok = false
			return
		}
		for _, r := range *refs {
			switch x := r.(type) {
			case *ssa.DebugRef:
			case *ssa.UnOp:
				if x.Op != token.MUL {
					ok = false
				}
			case *ssa.Store:
				if x.Val == v {
					ok = false
				}
			case *ssa.FieldAddr:
				chk(x, depth+1)
			case *ssa.IndexAddr:
				if _, isArr := x.X.Type().Underlying().(*types.Pointer); isArr && x.X == v {
					chk(x, depth+1)
				} else {
					ok = false
				}
			default:
				ok = false
			}
		}
	}
	chk(a, 0)
	g.localAllocs[a] = ok
	return ok
}

func (g *FuncGen) allocTerm(h *Heap) string { return g.heapGet(h, "$alloc", "Int") }

// ---------- values ----------

func (g *FuncGen) valName(v ssa.Value) string {
	return "v:" + g.prefix + v.Name()
}

func (g *FuncGen) val(v ssa.Value) string {
	if t, ok := g.vals[v]; ok {
		return t
	}
	var t string
	switch x := v.(type) {
	case *ssa.Const:
		t = g.constTerm(x)
		g.vals[v] = t
		return t
	case *ssa.Global:
		t = g.declare("G:"+shortPath(x.Pkg.Pkg.Path())+"."+x.Name(), "Int")
		if !g.nonNil[t] {
			g.nonNil[t] = true
			g.assert(fmt.Sprintf("(and (> %s 0) (< %s %s))", t, t, g.alloc0))
			g.eng.noteGlobal(g, x, t)
		}
	case *ssa.Function:
		t = g.declare("FN:"+x.String(), "Int")
		g.assert(fmt.Sprintf("(> %s 0)", t))
	case *ssa.Parameter, *ssa.FreeVar:
		t = g.declareDeep("p:"+g.prefix+v.Name(), v.Type())
	case *ssa.Builtin:
		t = "0"
	default:
		if _, isAddr := g.addrs[v]; isAddr {
			// interior pointer used as a value: outside the subset
			t = g.declare(g.valName(v), "Int")
			g.abstract(fmt.Sprintf("interior pointer %s used as a value", v.Name()))
		} else {
			t = g.declare(g.valName(v), g.w.SortOf(v.Type()))
		}
	}
	g.vals[v] = t
	return t
}

func (g *FuncGen) abstract(what string) {
	g.abstracted = append(g.abstracted, what)
}

func (g *FuncGen) constTerm(c *ssa.Const) string {
	t := c.Type()
	if c.Value == nil {
		return g.w.Zero(t)
	}
	switch {
	case isBoolType(t):
		if c.Value.String() == "true" {
			return "true"
		}
		return "false"
	case isIntType(t):
		s := c.Value.ExactString()
		if strings.HasPrefix(s, "-") {
			return "(- " + s[1:] + ")"
		}
		return s
	case isFloatType(t):
		s := c.Value.ExactString() // may be a/b
		if strings.Contains(s, "/") {
			p := strings.Split(s, "/")
			return fmt.Sprintf("(/ %s %s)", realLit(p[0]), realLit(p[1]))
		}
		return realLit(s)
	case isStringType(t):
		return g.w.StrLit(constString(c))
	}
	return g.w.Zero(t)
}

func realLit(s string) string {
	neg := strings.HasPrefix(s, "-")
	if neg {
		s = s[1:]
	}
	if !strings.Contains(s, ".") {
		s += ".0"
	}
	if neg {
		return "(- " + s + ")"
	}
	return s
}

func constString(c *ssa.Const) string {
	s := c.Value.ExactString()
	// ExactString of a string constant is a quoted Go string
	var out string
	if _, err := fmt.Sscanf(s, "%q", &out); err == nil {
		return out
	}
	return strings.Trim(s, "\"")
}

// typeAssume adds the range / well-formedness facts every value of a Go type
// satisfies (they come from the type system, not from the contract).
func (g *FuncGen) typeFacts(term string, t types.Type, alloc string) []string {
	var out []string
	switch u := t.Underlying().(type) {
	case *types.Basic:
		if lo, hi, ok := intRange(t); ok {
			out = append(out, fmt.Sprintf("(<= %s %s)", lo, term), fmt.Sprintf("(<= %s %s)", term, hi))
		}
	case *types.Pointer, *types.Map:
		out = append(out, fmt.Sprintf("(>= %s 0)", term))
		if alloc != "" {
			out = append(out, fmt.Sprintf("(< %s %s)", term, alloc))
		}
	case *types.Slice:
		out = append(out, fmt.Sprintf("(wf_slice %s)", term))
		if alloc != "" {
			out = append(out, fmt.Sprintf("(< (s_arr %s) %s)", term, alloc))
		}
	case *types.Interface:
		out = append(out, fmt.Sprintf("(>= (i_typ %s) 0)", term), fmt.Sprintf("(=> (= (i_typ %s) 0) (= (i_val %s) 0))", term, term))
	case *types.Struct:
		for i := 0; i < u.NumFields(); i++ {
			ft := u.Field(i).Type()
			sub := fmt.Sprintf("(%s %s)", g.w.fieldSel(t, i), term)
			out = append(out, g.typeFacts(sub, ft, alloc)...)
		}
	}
	return out
}

func (g *FuncGen) assumeType(term string, t types.Type, alloc string, guard string) {
	for _, f := range g.typeFacts(term, t, alloc) {
		if guard == "" || guard == "true" {
			g.assert(f)
		} else {
			g.assert(fmt.Sprintf("(=> %s %s)", guard, f))
		}
	}
}

// ---------- addresses ----------

// addrOf returns the address descriptor for a pointer-typed SSA value.
func (g *FuncGen) addrOf(v ssa.Value) *Addr {
	if a, ok := g.addrs[v]; ok {
		return a
	}
	pt, ok := v.Type().Underlying().(*types.Pointer)
	if !ok {
		return nil
	}
	if al, isAlloc := v.(*ssa.Alloc); isAlloc && g.isLocalAlloc(al) {
		return &Addr{local: al, typ: pt.Elem(), fresh: true}
	}
	ref := g.val(v)
	elem := pt.Elem()
	a := &Addr{ref: ref, typ: elem, fresh: g.fresh[ref]}
	switch u := elem.Underlying().(type) {
	case *types.Struct:
		a.whole = true
	case *types.Array:
		// pointer to array: the array lives in the element heap under its own ref
		a.m = g.elemMap(u.Elem())
		a.whole = true
	default:
		a.m = g.cellMap(elem)
		a.rootT = elem
	}
	return a
}

func (g *FuncGen) fieldAddr(base *Addr, st types.Type, i int) *Addr {
	s := st.Underlying().(*types.Struct)
	ft := s.Field(i).Type()
	if base.local != nil {
		n := *base
		n.path = append(append([]pathStep{}, base.path...), pathStep{field: i, typ: st})
		n.typ = ft
		return &n
	}
	if base.whole {
		return &Addr{m: g.fieldMap(st, i), ref: base.ref, rootT: ft, typ: ft, fresh: base.fresh}
	}
	n := *base
	n.path = append(append([]pathStep{}, base.path...), pathStep{field: i, typ: st})
	n.typ = ft
	return &n
}

// project applies a path to a root value.
func (g *FuncGen) project(root string, path []pathStep) string {
	t := root
	for _, p := range path {
		if p.field >= 0 {
			t = g.w.selApply(g.w.fieldSel(p.typ, p.field), g.w.ctor(p.typ), p.field, t)
		} else {
			t = fmt.Sprintf("(select %s %s)", t, p.idx)
		}
	}
	return t
}

// update rebuilds a root value with the element at path replaced.
func (g *FuncGen) update(root string, path []pathStep, v string) string {
	if len(path) == 0 {
		return v
	}
	p := path[0]
	if p.field >= 0 {
		st := p.typ.Underlying().(*types.Struct)
		parts := []string{g.w.ctor(p.typ)}
		for i := 0; i < st.NumFields(); i++ {
			sub := g.w.selApply(g.w.fieldSel(p.typ, i), g.w.ctor(p.typ), i, root)
			if i == p.field {
				parts = append(parts, g.update(sub, path[1:], v))
			} else {
				parts = append(parts, sub)
			}
		}
		return "(" + strings.Join(parts, " ") + ")"
	}
	sub := fmt.Sprintf("(select %s %s)", root, p.idx)
	return fmt.Sprintf("(store %s %s %s)", root, p.idx, g.update(sub, path[1:], v))
}

func (g *FuncGen) loadRoot(h *Heap, a *Addr) string {
	m := g.heapGet(h, a.m.Name, a.m.Sort)
	if a.idx != "" {
		return fmt.Sprintf("(select (select %s %s) %s)", m, a.ref, a.idx)
	}
	return fmt.Sprintf("(select %s %s)", m, a.ref)
}

func (g *FuncGen) load(h *Heap, a *Addr) string {
	if a.whole {
		switch u := a.typ.Underlying().(type) {
		case *types.Struct:
			if u.NumFields() == 0 {
				return g.w.ctor(a.typ)
			}
			parts := []string{g.w.ctor(a.typ)}
			for i := 0; i < u.NumFields(); i++ {
				fm := g.fieldMap(a.typ, i)
				parts = append(parts, fmt.Sprintf("(select %s %s)", g.heapGet(h, fm.Name, fm.Sort), a.ref))
			}
			return "(" + strings.Join(parts, " ") + ")"
		case *types.Array:
			return fmt.Sprintf("(select %s %s)", g.heapGet(h, a.m.Name, a.m.Sort), a.ref)
		}
	}
	return g.project(g.loadRoot(h, a), a.path)
}

// store returns the new heap and the list of (map, ref) written.
func (g *FuncGen) store(h *Heap, a *Addr, v string) (*Heap, []string) {
	if a.whole {
		switch u := a.typ.Underlying().(type) {
		case *types.Struct:
			var maps []string
			for i := 0; i < u.NumFields(); i++ {
				fm := g.fieldMap(a.typ, i)
				cur := g.heapGet(h, fm.Name, fm.Sort)
				nv := g.freshConst("H:"+fm.Name, fm.Sort)
				g.assert(fmt.Sprintf("(= %s (store %s %s (%s %s)))", nv, cur, a.ref, g.w.fieldSel(a.typ, i), v))
				h = g.heapSet(h, fm.Name, nv)
				maps = append(maps, fm.Name)
			}
			return h, maps
		case *types.Array:
			cur := g.heapGet(h, a.m.Name, a.m.Sort)
			nv := g.freshConst("H:"+a.m.Name, a.m.Sort)
			g.assert(fmt.Sprintf("(= %s (store %s %s %s))", nv, cur, a.ref, v))
			return g.heapSet(h, a.m.Name, nv), []string{a.m.Name}
		}
	}
	cur := g.heapGet(h, a.m.Name, a.m.Sort)
	nv := g.freshConst("H:"+a.m.Name, a.m.Sort)
	var rootNew string
	if len(a.path) == 0 {
		rootNew = v
	} else {
		rootNew = g.update(g.loadRoot(h, a), a.path, v)
	}
	if a.idx != "" {
		g.assert(fmt.Sprintf("(= %s (store %s %s (store (select %s %s) %s %s)))", nv, cur, a.ref, cur, a.ref, a.idx, rootNew))
	} else {
		g.assert(fmt.Sprintf("(= %s (store %s %s %s))", nv, cur, a.ref, rootNew))
	}
	return g.heapSet(h, a.m.Name, nv), []string{a.m.Name}
}

// alloc creates a fresh object reference.
func (g *FuncGen) allocRef(st *State, prefix string) string {
	r := g.freshConst(prefix, "Int")
	cur := g.allocTerm(st.heap)
	g.assert(fmt.Sprintf("(and (> %s 0) (>= %s %s))", r, r, cur))
	na := g.freshConst("alloc", "Int")
	g.assert(fmt.Sprintf("(= %s (+ %s 1))", na, r))
	st.heap = g.heapSet(st.heap, "$alloc", na)
	g.fresh[r] = true
	g.nonNil[r] = true
	return r
}

// zeroInit writes zero values into all field maps of a fresh object.
func (g *FuncGen) zeroInit(st *State, ref string, t types.Type) {
	switch u := t.Underlying().(type) {
	case *types.Struct:
		for i := 0; i < u.NumFields(); i++ {
			fm := g.fieldMap(t, i)
			cur := g.heapGet(st.heap, fm.Name, fm.Sort)
			nv := g.freshConst("H:"+fm.Name, fm.Sort)
			g.assert(fmt.Sprintf("(= %s (store %s %s %s))", nv, cur, ref, g.w.Zero(u.Field(i).Type())))
			st.heap = g.heapSet(st.heap, fm.Name, nv)
		}
	case *types.Array:
		em := g.elemMap(u.Elem())
		cur := g.heapGet(st.heap, em.Name, em.Sort)
		nv := g.freshConst("H:"+em.Name, em.Sort)
		g.assert(fmt.Sprintf("(= %s (store %s %s %s))", nv, cur, ref, g.w.Zero(t)))
		st.heap = g.heapSet(st.heap, em.Name, nv)
	default:
		cm := g.cellMap(t)
		cur := g.heapGet(st.heap, cm.Name, cm.Sort)
		nv := g.freshConst("H:"+cm.Name, cm.Sort)
		g.assert(fmt.Sprintf("(= %s (store %s %s %s))", nv, cur, ref, g.w.Zero(t)))
		st.heap = g.heapSet(st.heap, cm.Name, nv)
	}
}

// ---------- driver ----------

func (g *FuncGen) posOf(i ssa.Instruction) token.Pos {
	if i.Pos().IsValid() {
		return i.Pos()
	}
	return token.NoPos
}

// analyseLoops finds natural loops.
func (g *FuncGen) analyseLoops() {
	fn := g.fn
	g.loops = map[*ssa.BasicBlock]*loopInfo{}
	var heads []*ssa.BasicBlock
	for _, b := range fn.Blocks {
		for _, s := range b.Succs {
			if s.Dominates(b) {
				li := g.loops[s]
				if li == nil {
					li = &loopInfo{head: s, body: map[*ssa.BasicBlock]bool{s: true}}
					g.loops[s] = li
					heads = append(heads, s)
				}
				// natural loop of back edge b->s
				var stack []*ssa.BasicBlock
				if !li.body[b] {
					li.body[b] = true
					stack = append(stack, b)
				}
				for len(stack) > 0 {
					x := stack[len(stack)-1]
					stack = stack[:len(stack)-1]
					for _, p := range x.Preds {
						if !li.body[p] {
							li.body[p] = true
							stack = append(stack, p)
						}
					}
				}
			}
		}
	}
	sort.Slice(heads, func(i, j int) bool { return heads[i].Index < heads[j].Index })
	for i, h := range heads {
		li := g.loops[h]
		li.ord = i + 1
		if g.c != nil {
			li.spec = g.c.Loops[li.ord]
		}
		g.loopList = append(g.loopList, li)
	}
	// parents: smallest enclosing loop
	for _, li := range g.loopList {
		for _, lj := range g.loopList {
			if li != lj && lj.body[li.head] && len(lj.body) > len(li.body) {
				if li.parent == nil || len(lj.body) < len(li.parent.body) {
					li.parent = lj
				}
			}
		}
	}
}

func (g *FuncGen) isBackEdge(from, to *ssa.BasicBlock) bool {
	return to.Dominates(from) && g.loops[to] != nil
}

// rpo: reverse postorder ignoring back edges.
func (g *FuncGen) rpo() []*ssa.BasicBlock {
	seen := map[*ssa.BasicBlock]bool{}
	var post []*ssa.BasicBlock
	var dfs func(b *ssa.BasicBlock)
	dfs = func(b *ssa.BasicBlock) {
		seen[b] = true
		for _, s := range b.Succs {
			if g.isBackEdge(b, s) || seen[s] {
				continue
			}
			dfs(s)
		}
		post = append(post, b)
	}
	dfs(g.fn.Blocks[0])
	for i, j := 0, len(post)-1; i < j; i, j = i+1, j-1 {
		post[i], post[j] = post[j], post[i]
	}
	return post
}

// loopMods computes the heap maps possibly written inside a loop body.
func (g *FuncGen) loopMods(li *loopInfo) map[string]bool {
	mods := map[string]bool{"$alloc": true}
	all := false
	addStore := func(addr ssa.Value, valT types.Type) {
		// static name of the map written through addr
		for _, n := range g.staticMapNames(addr) {
			if n == "*" {
				all = true
			}
			mods[n] = true
		}
	}
	for b := range li.body {
		for _, ins := range b.Instrs {
			switch x := ins.(type) {
			case *ssa.Store:
				addStore(x.Addr, x.Val.Type())
			case *ssa.MapUpdate:
				if mt, ok := x.Map.Type().Underlying().(*types.Map); ok {
					mods[g.mapDom(mt, x.Map.Type()).Name] = true
					mods[g.mapVal(mt, x.Map.Type()).Name] = true
					mods[g.mapLen(mt).Name] = true
				}
			case ssa.CallInstruction:
				cm := g.calleeMods(x)
				for _, n := range cm {
					if n == "*" {
						all = true
					}
					mods[n] = true
				}
			}
		}
	}
	if all {
		return nil
	}
	return mods
}

// staticMapNames: which heap maps can a store through this address touch.
func (g *FuncGen) staticMapNames(addr ssa.Value) []string {
	switch x := addr.(type) {
	case *ssa.FieldAddr:
		pt := x.X.Type().Underlying().(*types.Pointer)
		// nested value struct: the root map is that of the outermost object
		if inner, ok := x.X.(*ssa.FieldAddr); ok {
			return g.staticMapNames(inner)
		}
		if inner, ok := x.X.(*ssa.IndexAddr); ok {
			return g.staticMapNames(inner)
		}
		return []string{g.fieldMap(pt.Elem(), x.Field).Name}
	case *ssa.IndexAddr:
		switch u := x.X.Type().Underlying().(type) {
		case *types.Slice:
			return []string{g.elemMap(u.Elem()).Name}
		case *types.Pointer:
			if inner, ok := x.X.(*ssa.FieldAddr); ok {
				return g.staticMapNames(inner)
			}
			if at, ok := u.Elem().Underlying().(*types.Array); ok {
				return []string{g.elemMap(at.Elem()).Name}
			}
		}
		return []string{"*"}
	default:
		pt, ok := addr.Type().Underlying().(*types.Pointer)
		if !ok {
			return []string{"*"}
		}
		switch u := pt.Elem().Underlying().(type) {
		case *types.Struct:
			var out []string
			for i := 0; i < u.NumFields(); i++ {
				out = append(out, g.fieldMap(pt.Elem(), i).Name)
			}
			return out
		case *types.Array:
			return []string{g.elemMap(u.Elem()).Name}
		default:
			return []string{g.cellMap(pt.Elem()).Name}
		}
	}
}

// calleeMods: heap maps a call may modify (by contract), "*" if unknown.
func (g *FuncGen) calleeMods(ci ssa.CallInstruction) []string {
	com := ci.Common()
	if b, ok := com.Value.(*ssa.Builtin); ok {
		switch b.Name() {
		case "append":
			if st, ok := com.Args[0].Type().Underlying().(*types.Slice); ok {
				return []string{g.elemMap(st.Elem()).Name}
			}
			return []string{"*"}
		case "copy":
			if st, ok := com.Args[0].Type().Underlying().(*types.Slice); ok {
				return []string{g.elemMap(st.Elem()).Name}
			}
			return []string{"*"}
		case "delete":
			if mt, ok := com.Args[0].Type().Underlying().(*types.Map); ok {
				return []string{g.mapDom(mt, nil).Name, g.mapVal(mt, nil).Name, g.mapLen(mt).Name}
			}
			return []string{"*"}
		}
		return nil
	}
	c, _ := g.eng.contractForCall(com)
	if c == nil {
		if g.eng.isKnownPure(com) {
			return nil
		}
		return []string{"*"}
	}
	names, err := g.resolveModNames(c.Modifies, g.eng.pkgOfContract(c))
	if err != nil {
		return []string{"*"}
	}
	return names
}

func (g *FuncGen) Generate() (err error) {
	defer func() {
		if r := recover(); r != nil {
			if ue, ok := r.(unsupportedErr); ok {
				g.unsupported = string(ue)
				err = nil
				return
			}
			panic(r)
		}
	}()
	fn := g.fn
	if len(fn.Blocks) == 0 {
		g.unsupported = "no body"
		return nil
	}
	if fn.Recover != nil {
		g.unsupported = "defer/recover"
		return nil
	}
	g.collectDebugRefs()
	g.analyseLoops()

	// entry state
	g.entryHeap = g.newHeap(hEntry)
	g.alloc0 = g.heapGet(g.entryHeap, "$alloc", "Int")
	g.assert(fmt.Sprintf("(> %s 0)", g.alloc0))

	// own modifies
	g.ownMod = map[string]bool{}
	if g.c != nil {
		names, e := g.resolveModNames(g.c.Modifies, g.pkg)
		if e != nil {
			return e
		}
		for _, n := range names {
			if n == "*" {
				g.modifiesAll = true
			}
			g.ownMod[n] = true
		}
	}

	// parameters
	g.paramTerms = map[string]Val{}
	var cnames []string
	if g.c != nil {
		if g.c.Recv != "" {
			cnames = append(cnames, g.c.Recv)
		}
		cnames = append(cnames, g.c.Params...)
	}
	for i, p := range fn.Params {
		t := g.val(p)
		g.assumeType(t, p.Type(), g.alloc0, "")
		name := p.Name()
		if i < len(cnames) {
			name = cnames[i]
		}
		g.paramTerms[name] = Val{t, p.Type()}
	}
	if g.c != nil && len(cnames) != len(fn.Params) {
		return fmt.Errorf("%s: contract declares %d parameters (incl. receiver), function has %d — contract out of date", g.fname, len(cnames), len(fn.Params))
	}

	// preconditions
	entryReach := "true"
	env := g.entryEnv()
	if g.c != nil {
		for _, ga := range g.eng.cs.Globals {
			_ = ga
		}
		var pres []string
		for _, cl := range append(append([]Clause{}, g.c.Requires...), g.c.Domain...) {
			t, e := g.evalBool(cl.Expr, env)
			if e != nil {
				return fmt.Errorf("%s: requires %s: %v", g.fname, cl.Src, e)
			}
			g.assert(t)
			pres = append(pres, t)
		}
		for _, cl := range g.c.Assumes {
			t, e := g.evalBool(cl.Expr, env)
			if e != nil {
				return fmt.Errorf("%s: assume %s: %v", g.fname, cl.Src, e)
			}
			g.assert(t)
			g.assumptions["assumed fact ["+cl.Label+"] in "+g.fname+": "+cl.Src] = true
		}
		// vacuity: the precondition must be satisfiable
		o := g.oblige("cover.pre", "", "true", "true", "precondition satisfiable", token.NoPos)
		o.WantSat = true
	}
	if err := g.bindLets(env); err != nil {
		return err
	}
	if g.c != nil {
		for _, fe := range g.c.Footprint {
			v, err := g.eval(fe, env)
			if err != nil {
				return fmt.Errorf("%s: footprint %s: %v", g.fname, fe, err)
			}
			g.ownFootprint = append(g.ownFootprint, v.Term)
		}
	}

	g.edges = map[[2]int]edgeInfo{}
	order := g.rpo()
	for _, b := range order {
		var st *State
		switch {
		case b.Index == 0:
			st = &State{reach: entryReach, heap: g.entryHeap, locals: map[*ssa.Alloc]string{}}
		case g.loops[b] != nil:
			st, err = g.enterLoop(b)
			if err != nil {
				return err
			}
		default:
			st = g.mergeInto(b)
		}
		if st == nil {
			continue
		}
		if err := g.execBlock(b, st); err != nil {
			return err
		}
	}
	if g.c != nil {
		g.flushPosts()
	}
	return nil
}

type unsupportedErr string

func (g *FuncGen) bail(format string, a ...interface{}) {
	panic(unsupportedErr(fmt.Sprintf(format, a...)))
}

func (g *FuncGen) entryEnv() *Env {
	env := &Env{g: g, vars: map[string]Val{}, heap: g.entryHeap, old: g.entryHeap, pkg: g.pkg, entryVars: g.paramTerms}
	for k, v := range g.paramTerms {
		env.vars[k] = v
	}
	return env
}

func (g *FuncGen) bindLets(env *Env) error {
	if g.c == nil {
		return nil
	}
	for _, l := range g.c.Lets {
		v, err := g.eval(l.Expr, env)
		if err != nil {
			return fmt.Errorf("%s: let %s: %v", g.fname, l.Name, err)
		}
		g.paramTerms[l.Name] = v
		env.vars[l.Name] = v
	}
	return nil
}

// mergeInto builds the in-state of a join (non-header) block.
func (g *FuncGen) mergeInto(b *ssa.BasicBlock) *State {
	var conds []string
	var heaps []*Heap
	var preds []*ssa.BasicBlock
	var locs []map[*ssa.Alloc]string
	for _, p := range b.Preds {
		e, ok := g.edges[[2]int{p.Index, b.Index}]
		if !ok {
			continue
		}
		conds = append(conds, e.cond)
		heaps = append(heaps, e.heap)
		preds = append(preds, p)
		locs = append(locs, e.locals)
	}
	if len(conds) == 0 {
		return nil
	}
	st := &State{}
	st.locals = g.mergeLocals(b, conds, locs)
	if len(conds) == 1 {
		st.reach = conds[0]
		st.heap = heaps[0]
	} else {
		r := g.declare(fmt.Sprintf("reach:b%d", b.Index), "Bool")
		g.assert(fmt.Sprintf("(= %s (or %s))", r, strings.Join(conds, " ")))
		st.reach = r
		h := g.newHeap(hMerge)
		h.preds = heaps
		h.conds = conds
		st.heap = h
	}
	// phis
	for _, ins := range b.Instrs {
		phi, ok := ins.(*ssa.Phi)
		if !ok {
			break
		}
		pv := g.val(phi)
		for k, p := range preds {
			// find operand index for pred p
			for j, bp := range b.Preds {
				if bp == p {
					g.assert(fmt.Sprintf("(=> %s (= %s %s))", conds[k], pv, g.val(phi.Edges[j])))
				}
			}
		}
	}
	return st
}

// mergeLocals joins the tracked local variables of several incoming edges.
func (g *FuncGen) mergeLocals(b *ssa.BasicBlock, conds []string, locs []map[*ssa.Alloc]string) map[*ssa.Alloc]string {
	out := map[*ssa.Alloc]string{}
	if len(locs) == 0 {
		return out
	}
	for a, t0 := range locs[0] {
		same := true
		for _, m := range locs[1:] {
			if t, ok := m[a]; !ok || t != t0 {
				same = false
			}
		}
		if same {
			out[a] = t0
			continue
		}
		pt := a.Type().Underlying().(*types.Pointer)
		c := g.freshConst("loc:"+a.Comment, g.w.SortOf(pt.Elem()))
		for i, m := range locs {
			if t, ok := m[a]; ok {
				g.assert(fmt.Sprintf("(=> %s (= %s %s))", conds[i], c, t))
			}
		}
		out[a] = c
	}
	return out
}

// loopEnv builds the environment in which a loop's invariant is evaluated.
// phiVal maps each header phi to the term to use for it.
// mapRangeKeySort: if the loop is a range over a map, the SMT sort of its keys.
func (g *FuncGen) mapRangeKeySort(li *loopInfo) string {
	for _, ins := range li.head.Instrs {
		if nx, ok := ins.(*ssa.Next); ok && !nx.IsString {
			if rng, ok := nx.Iter.(*ssa.Range); ok {
				if mt, ok := rng.X.Type().Underlying().(*types.Map); ok {
					return g.w.SortOf(mt.Key())
				}
			}
		}
	}
	return ""
}

// visitedFor: the ghost visited set of a map-range loop in the three
// situations an invariant is evaluated in (0 entry, 1 head, 2 back edge).
func (g *FuncGen) visitedFor(li *loopInfo, mode int) string {
	ks := g.mapRangeKeySort(li)
	if ks == "" {
		return ""
	}
	vis, ok := g.visited[li.head]
	if !ok {
		vis = g.freshConst("visited", "(Array "+ks+" Bool)")
		g.visited[li.head] = vis
	}
	switch mode {
	case 0:
		return "((as const (Array " + ks + " Bool)) false)"
	case 2:
		if k, ok := g.nextKey[li.head]; ok {
			return fmt.Sprintf("(store %s %s true)", vis, k)
		}
	}
	return vis
}

func (g *FuncGen) loopEnv(li *loopInfo, heap *Heap, locals map[*ssa.Alloc]string, phiVal func(*ssa.Phi) string) *Env {
	env := &Env{g: g, vars: map[string]Val{}, heap: heap, old: g.entryHeap, pkg: g.pkg, entryVars: g.paramTerms}
	for k, v := range g.paramTerms {
		env.vars[k] = v
	}
	for a, t := range locals {
		if a.Comment != "" && a.Comment != "complit" {
			if _, isParam := env.vars[a.Comment]; !isParam || true {
				env.vars[a.Comment] = Val{t, a.Type().Underlying().(*types.Pointer).Elem()}
			}
		}
	}
	// dominating named locals
	for name, defs := range g.debugRef {
		var best *debugDef
		for i := range defs {
			d := &defs[i]
			if d.addr {
				continue
			}
			if d.block == li.head {
				continue
			}
			if d.block.Dominates(li.head) {
				if best == nil || best.block.Dominates(d.block) {
					best = d
				}
			}
		}
		if best != nil {
			if _, isParam := env.vars[name]; !isParam {
				if _, isAddr := g.addrs[best.v]; !isAddr {
					env.vars[name] = Val{g.val(best.v), best.v.Type()}
				}
			}
		}
	}
	// enclosing loops' phis (current values), outermost first
	var chain []*loopInfo
	for l := li.parent; l != nil; l = l.parent {
		chain = append([]*loopInfo{l}, chain...)
	}
	for _, l := range chain {
		for _, ins := range l.head.Instrs {
			phi, ok := ins.(*ssa.Phi)
			if !ok {
				break
			}
			if phi.Comment == "rangeindex" {
				env.vars[fmt.Sprintf("idx%d", l.ord)] = Val{fmt.Sprintf("(+ %s 1)", g.val(phi)), types.Typ[types.Int]}
			} else if phi.Comment != "" {
				env.vars[phi.Comment] = Val{g.val(phi), phi.Type()}
			}
		}
	}
	for _, ins := range li.head.Instrs {
		phi, ok := ins.(*ssa.Phi)
		if !ok {
			break
		}
		t := phiVal(phi)
		if phi.Comment == "rangeindex" {
			env.vars["idx"] = Val{fmt.Sprintf("(+ %s 1)", t), types.Typ[types.Int]}
			env.vars[fmt.Sprintf("idx%d", li.ord)] = env.vars["idx"]
		} else if phi.Comment != "" {
			env.vars[phi.Comment] = Val{t, phi.Type()}
		}
	}
	if rl := g.rangeLen(li); rl != nil {
		env.vars["$rangelen"] = Val{g.val(rl), tInt}
	}
	if vs := g.visitedFor(li, g.visitedMode); vs != "" {
		env.vars["$visited"] = Val{vs, nil}
	}
	return env
}

// rangeLen: the SSA value the range index is compared with (`idx+1 < len`).
func (g *FuncGen) rangeLen(li *loopInfo) ssa.Value {
	for _, ins := range li.head.Instrs {
		if ifi, ok := ins.(*ssa.If); ok {
			if cmp, ok := ifi.Cond.(*ssa.BinOp); ok && cmp.Op == token.LSS {
				if add, ok := cmp.X.(*ssa.BinOp); ok && add.Op == token.ADD {
					if phi, ok := add.X.(*ssa.Phi); ok && phi.Comment == "rangeindex" {
						// the bound must be defined outside the loop
						if ins2, ok := cmp.Y.(ssa.Instruction); ok && li.body[ins2.Block()] {
							return nil
						}
						return cmp.Y
					}
				}
			}
		}
	}
	return nil
}

func (g *FuncGen) loopInvariants(li *loopInfo) []Clause {
	var out []Clause
	for _, ins := range li.head.Instrs {
		phi, ok := ins.(*ssa.Phi)
		if !ok {
			break
		}
		if phi.Comment == "rangeindex" {
			src := "idx >= 0"
			if g.rangeLen(li) != nil {
				src = "idx >= 0 && idx <= $rangelen"
			}
			e, _ := ParseExpr(src)
			out = append(out, Clause{Label: "auto.range", Expr: e, Src: src})
		}
	}
	if li.spec != nil {
		for _, cl := range li.spec.Invariants {
			if li.stale[cl.Src] {
				continue
			}
			out = append(out, cl)
		}
	}
	return out
}

func (g *FuncGen) enterLoop(b *ssa.BasicBlock) (*State, error) {
	li := g.loops[b]
	var conds []string
	var heaps []*Heap
	var predIdx []int
	var locs []map[*ssa.Alloc]string
	for j, p := range b.Preds {
		if g.isBackEdge(p, b) {
			continue
		}
		e, ok := g.edges[[2]int{p.Index, b.Index}]
		if !ok {
			continue
		}
		conds = append(conds, e.cond)
		heaps = append(heaps, e.heap)
		predIdx = append(predIdx, j)
		locs = append(locs, e.locals)
	}
	if len(conds) == 0 {
		return nil, nil
	}
	// an invariant that mentions names the code no longer has is dropped (and
	// reported): the loop structure changed under the contract
	if li.spec != nil && len(conds) > 0 {
		li.stale = map[string]bool{}
		g.visitedMode = 0
		probe := g.loopEnv(li, heaps[0], locs[0], func(phi *ssa.Phi) string { return g.val(phi.Edges[predIdx[0]]) })
		for _, cl := range li.spec.Invariants {
			if _, err := g.evalBool(cl.Expr, probe); err != nil {
				li.stale[cl.Src] = true
				g.staleInvs = append(g.staleInvs, fmt.Sprintf("loop %d invariant %s: %v", li.ord, cl.Src, err))
			}
		}
	}
	invs := g.loopInvariants(li)
	// inv.init on every entry edge
	for k := range conds {
		j := predIdx[k]
		g.visitedMode = 0
		env := g.loopEnv(li, heaps[k], locs[k], func(phi *ssa.Phi) string { return g.val(phi.Edges[j]) })
		for _, cl := range invs {
			t, err := g.evalBool(cl.Expr, env)
			if err != nil {
				return nil, fmt.Errorf("%s: loop %d invariant %s: %v", g.fname, li.ord, cl.Src, err)
			}
			g.oblige(fmt.Sprintf("inv.init.L%d", li.ord), cl.Label, conds[k], t, cl.Src, b.Instrs[0].Pos())
		}
	}
	// head state
	li.mods = g.loopMods(li)
	if li.spec != nil && len(li.spec.Modifies) > 0 {
		names, err := g.resolveModNames(li.spec.Modifies, g.pkg)
		if err != nil {
			return nil, err
		}
		li.mods = map[string]bool{"$alloc": true}
		for _, n := range names {
			li.mods[n] = true
		}
	}
	h := g.newHeap(hLoop)
	h.preds = heaps
	h.conds = conds
	h.havoc = li.mods
	li.headHp = h
	reach := g.newReach("")
	g.assert(fmt.Sprintf("(=> %s (or %s))", reach, strings.Join(conds, " ")))
	// phis are fresh constants (declared by val); type facts
	for _, ins := range b.Instrs {
		phi, ok := ins.(*ssa.Phi)
		if !ok {
			break
		}
		g.assumeType(g.val(phi), phi.Type(), g.allocTerm(h), reach)
	}
	// tracked locals: those stored to inside the loop are havocked
	headLocals := g.mergeLocals(b, conds, locs)
	for a := range headLocals {
		if g.localStoredIn(a, li) {
			pt := a.Type().Underlying().(*types.Pointer)
			c := g.freshConst("loc:"+a.Comment, g.w.SortOf(pt.Elem()))
			g.assumeType(c, pt.Elem(), g.allocTerm(h), reach)
			headLocals[a] = c
		}
	}
	li.headLocals = headLocals
	g.visitedMode = 1
	env := g.loopEnv(li, h, headLocals, func(phi *ssa.Phi) string { return g.val(phi) })
	for _, cl := range invs {
		t, err := g.evalBool(cl.Expr, env)
		if err != nil {
			return nil, fmt.Errorf("%s: loop %d invariant %s: %v", g.fname, li.ord, cl.Src, err)
		}
		g.assert(fmt.Sprintf("(=> %s %s)", reach, t))
	}
	return &State{reach: reach, heap: h, locals: copyLocals(headLocals)}, nil
}

// takeEdge records the state flowing along from->to; for back edges it
// generates the inv.preserve obligations instead.
func (g *FuncGen) takeEdge(from, to *ssa.BasicBlock, cond string, heap *Heap, locals map[*ssa.Alloc]string) error {
	if g.isBackEdge(from, to) {
		li := g.loops[to]
		var j int
		for k, p := range to.Preds {
			if p == from {
				j = k
			}
		}
		g.visitedMode = 2
		env := g.loopEnv(li, heap, locals, func(phi *ssa.Phi) string { return g.val(phi.Edges[j]) })
		for _, cl := range g.loopInvariants(li) {
			t, err := g.evalBool(cl.Expr, env)
			if err != nil {
				return fmt.Errorf("%s: loop %d invariant %s: %v", g.fname, li.ord, cl.Src, err)
			}
			g.oblige(fmt.Sprintf("inv.preserve.L%d", li.ord), cl.Label, cond, t, cl.Src, to.Instrs[0].Pos())
		}
		if li.spec != nil && li.spec.Decreases != nil {
			g.visitedMode = 1
			envHead := g.loopEnv(li, li.headHp, li.headLocals, func(phi *ssa.Phi) string { return g.val(phi) })
			g.visitedMode = 2
			d0, err := g.eval(li.spec.Decreases, envHead)
			if err != nil {
				return err
			}
			d1, err := g.eval(li.spec.Decreases, env)
			if err != nil {
				return err
			}
			g.oblige(fmt.Sprintf("dec.L%d", li.ord), "", cond, fmt.Sprintf("(and (>= %s 0) (< %s %s))", d0.Term, d1.Term, d0.Term), "decreases "+li.spec.Decreases.String(), to.Instrs[0].Pos())
		}
		return nil
	}
	g.edges[[2]int{from.Index, to.Index}] = edgeInfo{cond: cond, heap: heap, locals: copyLocals(locals)}
	return nil
}

// localStoredIn: is the tracked local written anywhere inside the loop?
func (g *FuncGen) localStoredIn(a *ssa.Alloc, li *loopInfo) bool {
	var rootOf func(v ssa.Value) ssa.Value
	rootOf = func(v ssa.Value) ssa.Value {
		switch x := v.(type) {
		case *ssa.FieldAddr:
			return rootOf(x.X)
		case *ssa.IndexAddr:
			return rootOf(x.X)
		}
		return v
	}
	for b := range li.body {
		for _, ins := range b.Instrs {
			if st, ok := ins.(*ssa.Store); ok && rootOf(st.Addr) == a {
				return true
			}
			if al, ok := ins.(*ssa.Alloc); ok && al == a {
				return true
			}
		}
	}
	return false
}

func and(a, b string) string {
	if a == "true" {
		return b
	}
	if b == "true" {
		return a
	}
	return "(and " + a + " " + b + ")"
}

func (g *FuncGen) collectDebugRefs() {
	g.debugRef = map[string][]debugDef{}
	for _, b := range g.fn.Blocks {
		for _, ins := range b.Instrs {
			if d, ok := ins.(*ssa.DebugRef); ok {
				if id, ok := d.Expr.(interface{ String() string }); ok {
					_ = id
				}
				if obj := d.Object(); obj != nil {
					if _, isVar := obj.(*types.Var); isVar {
						g.debugRef[obj.Name()] = append(g.debugRef[obj.Name()], debugDef{v: d.X, block: b, pos: d.Pos(), addr: d.IsAddr})
					}
				}
			}
		}
	}
}
