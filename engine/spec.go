package main

// Contract language: lexer, expression parser and contract-file reader.
//
// Contracts are structured `//@` comments.  In /repo they live in comment-only
// files `contracts_verif.go` (build tag verif); assumed contracts for code
// outside /repo live in /verif/contracts/extern.vc (same syntax, no `//@`).

import (
	"fmt"
	"os"
	"strings"
	"unicode"
)

// ---------- AST ----------

type Node struct {
	Kind string // ident, int, real, str, nil, true, false, unop, binop, field, index, slice, call, old, ite, forall, exists
	Op   string
	Name string
	Kids []*Node
	// binders for quantifiers
	BNames []string
	BTypes []string
	Src    string
}

func (n *Node) String() string {
	if n == nil {
		return "<nil>"
	}
	switch n.Kind {
	case "ident", "int", "real":
		return n.Name
	case "str":
		return fmt.Sprintf("%q", n.Name)
	case "nil", "true", "false":
		return n.Kind
	case "unop":
		return n.Op + n.Kids[0].String()
	case "binop":
		return "(" + n.Kids[0].String() + " " + n.Op + " " + n.Kids[1].String() + ")"
	case "field":
		return n.Kids[0].String() + "." + n.Name
	case "index":
		return n.Kids[0].String() + "[" + n.Kids[1].String() + "]"
	case "slice":
		return n.Kids[0].String() + "[" + n.Kids[1].String() + ":" + n.Kids[2].String() + "]"
	case "call":
		var a []string
		for _, k := range n.Kids {
			a = append(a, k.String())
		}
		return n.Name + "(" + strings.Join(a, ", ") + ")"
	case "old":
		return "old(" + n.Kids[0].String() + ")"
	case "forall", "exists":
		var b []string
		for i := range n.BNames {
			b = append(b, n.BNames[i]+" "+n.BTypes[i])
		}
		return "(" + n.Kind + " " + strings.Join(b, ", ") + " :: " + n.Kids[0].String() + ")"
	}
	return "?" + n.Kind
}

// ---------- lexer ----------

type tok struct {
	k string // id, int, real, str, op, eof
	s string
}

func lex(src string) ([]tok, error) {
	var out []tok
	i := 0
	rs := []rune(src)
	for i < len(rs) {
		c := rs[i]
		switch {
		case unicode.IsSpace(c):
			i++
		case unicode.IsLetter(c) || c == '_' || c == '$':
			j := i
			for j < len(rs) && (unicode.IsLetter(rs[j]) || unicode.IsDigit(rs[j]) || rs[j] == '_' || rs[j] == '$') {
				j++
			}
			out = append(out, tok{"id", string(rs[i:j])})
			i = j
		case unicode.IsDigit(c):
			j := i
			isReal := false
			for j < len(rs) && (unicode.IsDigit(rs[j]) || rs[j] == '_' || (rs[j] == '.' && j+1 < len(rs) && unicode.IsDigit(rs[j+1]))) {
				if rs[j] == '.' {
					isReal = true
				}
				j++
			}
			s := strings.ReplaceAll(string(rs[i:j]), "_", "")
			if isReal {
				out = append(out, tok{"real", s})
			} else {
				out = append(out, tok{"int", s})
			}
			i = j
		case c == '"':
			j := i + 1
			var sb strings.Builder
			for j < len(rs) && rs[j] != '"' {
				if rs[j] == '\\' && j+1 < len(rs) {
					j++
					switch rs[j] {
					case 'n':
						sb.WriteRune('\n')
					case 't':
						sb.WriteRune('\t')
					default:
						sb.WriteRune(rs[j])
					}
				} else {
					sb.WriteRune(rs[j])
				}
				j++
			}
			if j >= len(rs) {
				return nil, fmt.Errorf("unterminated string in %q", src)
			}
			out = append(out, tok{"str", sb.String()})
			i = j + 1
		default:
			three := ""
			if i+3 <= len(rs) {
				three = string(rs[i : i+3])
			}
			four := ""
			if i+4 <= len(rs) {
				four = string(rs[i : i+4])
			}
			two := ""
			if i+2 <= len(rs) {
				two = string(rs[i : i+2])
			}
			switch {
			case four == "<==>":
				out = append(out, tok{"op", four})
				i += 4
			case three == "==>":
				out = append(out, tok{"op", three})
				i += 3
			case two == "==" || two == "!=" || two == "<=" || two == ">=" || two == "&&" || two == "||" || two == "::" || two == "..":
				out = append(out, tok{"op", two})
				i += 2
			default:
				if strings.ContainsRune("+-*/%<>!()[]{}.,:=?&|#", c) {
					out = append(out, tok{"op", string(c)})
					i++
				} else {
					return nil, fmt.Errorf("bad character %q in %q", c, src)
				}
			}
		}
	}
	out = append(out, tok{"eof", ""})
	return out, nil
}

// ---------- parser ----------

type parser struct {
	t   []tok
	p   int
	src string
}

func (p *parser) peek() tok { return p.t[p.p] }
func (p *parser) next() tok { t := p.t[p.p]; p.p++; return t }
func (p *parser) isOp(s string) bool {
	return p.t[p.p].k == "op" && p.t[p.p].s == s
}
func (p *parser) isID(s string) bool {
	return p.t[p.p].k == "id" && p.t[p.p].s == s
}
func (p *parser) expectOp(s string) {
	if !p.isOp(s) {
		panic(fmt.Errorf("expected %q at token %d (%q) in %q", s, p.p, p.peek().s, p.src))
	}
	p.p++
}

func ParseExpr(src string) (n *Node, err error) {
	toks, err := lex(src)
	if err != nil {
		return nil, err
	}
	p := &parser{t: toks, src: src}
	defer func() {
		if r := recover(); r != nil {
			if e, ok := r.(error); ok {
				err = e
				return
			}
			panic(r)
		}
	}()
	n = p.expr()
	if p.peek().k != "eof" {
		return nil, fmt.Errorf("trailing tokens at %d (%q) in %q", p.p, p.peek().s, src)
	}
	n.Src = src
	return n, nil
}

func (p *parser) expr() *Node {
	if p.isID("forall") || p.isID("exists") {
		kind := p.next().s
		n := &Node{Kind: kind}
		for {
			name := p.next()
			if name.k != "id" {
				panic(fmt.Errorf("binder name expected in %q", p.src))
			}
			ty := p.typeStr()
			n.BNames = append(n.BNames, name.s)
			n.BTypes = append(n.BTypes, ty)
			if p.isOp(",") {
				p.p++
				continue
			}
			break
		}
		p.expectOp("::")
		n.Kids = []*Node{p.expr()}
		return n
	}
	return p.impl()
}

// typeStr consumes a Go-like type: *T, []T, map[K]V, pkg.Name, Name
func (p *parser) typeStr() string {
	switch {
	case p.isOp("*"):
		p.p++
		return "*" + p.typeStr()
	case p.isOp("["):
		p.p++
		p.expectOp("]")
		return "[]" + p.typeStr()
	case p.isID("map"):
		p.p++
		p.expectOp("[")
		k := p.typeStr()
		p.expectOp("]")
		return "map[" + k + "]" + p.typeStr()
	}
	t := p.next()
	if t.k != "id" {
		panic(fmt.Errorf("type expected, got %q in %q", t.s, p.src))
	}
	s := t.s
	for p.isOp(".") || p.isOp("/") {
		s += p.next().s
		s += p.next().s
	}
	return s
}

func (p *parser) impl() *Node {
	l := p.or()
	if p.isOp("==>") || p.isOp("<==>") {
		op := p.next().s
		var r *Node
		if p.isID("forall") || p.isID("exists") {
			r = p.expr()
		} else {
			r = p.impl()
		}
		return &Node{Kind: "binop", Op: op, Kids: []*Node{l, r}}
	}
	return l
}

func (p *parser) or() *Node {
	l := p.and()
	for p.isOp("||") {
		p.p++
		r := p.and()
		l = &Node{Kind: "binop", Op: "||", Kids: []*Node{l, r}}
	}
	return l
}

func (p *parser) and() *Node {
	l := p.cmp()
	for p.isOp("&&") {
		p.p++
		var r *Node
		if p.isID("forall") || p.isID("exists") {
			r = p.expr()
		} else {
			r = p.cmp()
		}
		l = &Node{Kind: "binop", Op: "&&", Kids: []*Node{l, r}}
	}
	return l
}

func isCmp(s string) bool {
	switch s {
	case "==", "!=", "<", "<=", ">", ">=":
		return true
	}
	return false
}

func (p *parser) cmp() *Node {
	l := p.add()
	var res *Node
	for p.peek().k == "op" && isCmp(p.peek().s) {
		op := p.next().s
		r := p.add()
		c := &Node{Kind: "binop", Op: op, Kids: []*Node{l, r}}
		if res == nil {
			res = c
		} else {
			res = &Node{Kind: "binop", Op: "&&", Kids: []*Node{res, c}}
		}
		l = r
	}
	if res != nil {
		return res
	}
	return l
}

func (p *parser) add() *Node {
	l := p.mul()
	for p.isOp("+") || p.isOp("-") {
		op := p.next().s
		r := p.mul()
		l = &Node{Kind: "binop", Op: op, Kids: []*Node{l, r}}
	}
	return l
}

func (p *parser) mul() *Node {
	l := p.unary()
	for p.isOp("*") || p.isOp("/") || p.isOp("%") {
		op := p.next().s
		r := p.unary()
		l = &Node{Kind: "binop", Op: op, Kids: []*Node{l, r}}
	}
	return l
}

func (p *parser) unary() *Node {
	if p.isOp("!") || p.isOp("-") || p.isOp("*") {
		op := p.next().s
		k := p.unary()
		return &Node{Kind: "unop", Op: op, Kids: []*Node{k}}
	}
	return p.postfix()
}

func (p *parser) postfix() *Node {
	n := p.primary()
	for {
		switch {
		case p.isOp("."):
			p.p++
			f := p.next()
			if f.k != "id" {
				panic(fmt.Errorf("field name expected in %q", p.src))
			}
			// qualified call pkg.Func(...) handled as call with dotted name
			if p.isOp("(") && n.Kind == "ident" {
				p.p++
				c := &Node{Kind: "call", Name: n.Name + "." + f.s}
				c.Kids = p.args()
				n = c
				continue
			}
			n = &Node{Kind: "field", Name: f.s, Kids: []*Node{n}}
		case p.isOp("["):
			p.p++
			var lo, hi *Node
			if !p.isOp(":") {
				lo = p.expr()
			}
			if p.isOp(":") {
				p.p++
				if !p.isOp("]") {
					hi = p.expr()
				}
				p.expectOp("]")
				n = &Node{Kind: "slice", Kids: []*Node{n, lo, hi}}
			} else {
				p.expectOp("]")
				n = &Node{Kind: "index", Kids: []*Node{n, lo}}
			}
		default:
			return n
		}
	}
}

func (p *parser) args() []*Node {
	var out []*Node
	if p.isOp(")") {
		p.p++
		return out
	}
	for {
		out = append(out, p.expr())
		if p.isOp(",") {
			p.p++
			continue
		}
		p.expectOp(")")
		return out
	}
}

func (p *parser) primary() *Node {
	t := p.next()
	switch t.k {
	case "int":
		return &Node{Kind: "int", Name: t.s}
	case "real":
		return &Node{Kind: "real", Name: t.s}
	case "str":
		return &Node{Kind: "str", Name: t.s}
	case "id":
		switch t.s {
		case "nil", "true", "false":
			return &Node{Kind: t.s}
		}
		if p.isOp("(") && (t.s == "typeis" || t.s == "unboxed") {
			// typeis(x, T) / unboxed(x, T): the second argument is a type
			p.p++
			x := p.expr()
			p.expectOp(",")
			ty := p.typeStr()
			p.expectOp(")")
			return &Node{Kind: "call", Name: t.s, Kids: []*Node{x, {Kind: "ident", Name: ty}}}
		}
		if p.isOp("(") {
			p.p++
			a := p.args()
			switch t.s {
			case "old":
				if len(a) != 1 {
					panic(fmt.Errorf("old takes one argument in %q", p.src))
				}
				return &Node{Kind: "old", Kids: a}
			case "ite":
				if len(a) != 3 {
					panic(fmt.Errorf("ite takes three arguments in %q", p.src))
				}
				return &Node{Kind: "ite", Kids: a}
			}
			return &Node{Kind: "call", Name: t.s, Kids: a}
		}
		return &Node{Kind: "ident", Name: t.s}
	case "op":
		if t.s == "(" {
			e := p.expr()
			p.expectOp(")")
			return e
		}
	}
	panic(fmt.Errorf("unexpected token %q in %q", t.s, p.src))
}

// ---------- contract file ----------

type Clause struct {
	Label string
	Expr  *Node
	Src   string
}

type LoopSpec struct {
	Invariants []Clause
	Decreases  *Node
	Modifies   []string
}

type SplitSpec struct {
	Only    []string // if set: applies only to the postconditions with these labels
	Bounded bool // `bound`: no residual instance - the obligations are only claimed inside lo..hi (labelled bounded)
	Expr   *Node
	Lo, Hi int
	// thorough range (optional): Hi2 >= Hi
	Hi2 int
}

type Contract struct {
	Key      string // "(num.Amount).Rescale", "num.intPow", "(*tax.Total).Negate" using package-qualified short form
	PkgPath  string // resolved later
	Recv     string // receiver name
	Params   []string
	Results  []string
	Requires []Clause
	Domain   []Clause // magnitude side conditions: proved in-package, assumed (A-DOMAIN) cross-package
	Ensures  []Clause
	Modifies []string // heap map names "T.f", "elem(T)", "*"
	Loops    map[int]*LoopSpec
	Splits   []SplitSpec
	Pure     bool
	Extern   bool // assumed, not verified
	Trusted  string
	File     string
	Line     int
	Asserts  []Clause
	Assumes  []Clause // stated mathematical facts, assumed when verifying the body; listed in the evidence
	AtCalls  []AtCall // ghost assertions checked in the state just before a call to a named callee
	AssumeFrames []AssumeFrame // assumed frames of calls that have no contract (listed as assumptions)
	Use      map[string][]string // callee name suffix -> labels of the callee's ensures clauses assumed at its calls here (the others are not used: assuming less is sound)
	Dynamic  map[string]string // parameter of interface type -> concrete type it is verified for (devirtualised method calls)
	Strings  bool     // use the SMT string theory for Go strings in this function's conditions
	Function bool     // the result of a call is the uninterpreted function of the arguments that contract expressions denote by writing the call
	Bytes    bool     // byte-level string model: string (in)equality is extensional over length and bytes
	Opaque   []string // spec functions treated as uninterpreted in this function's conditions
	Footprint []*Node // objects whose fields (of the maps in Modifies) may change; all others keep theirs
	Abstract []*Node // nonlinear terms replaced by fresh constants in a first proof attempt
	Thin     bool // generated by the safety sweep
	NoVerify bool // contract is only used at call sites (body outside subset); listed as assumption
	Lets     []LetSpec
}

type AtCall struct {
	Callee string // short name suffix of the callee, e.g. "Calculate" or "(*bill.Invoice).Calculate"
	Clause Clause
}

type LetSpec struct {
	Name string
	Expr *Node
}

type SpecFunc struct {
	Name    string
	Params  []string
	PTypes  []string
	RType   string
	Body    *Node
	Macro   bool // heap-reading predicate: expanded at use site
	Rec     bool // recursive heap-reading function: SMT define-fun-rec with the heap maps it reads as extra parameters
	PkgPath string
	Raw     string // raw SMT body (spec-smt)
}

type Lemma struct {
	Name    string
	Params  []string
	PTypes  []string
	Body    *Node
	PkgPath string
	Uses    []string // function contracts instantiated (unused for now)
	File    string
}

// AssumeFrame: an assumed frame for calls to a contract-less callee (name suffix, or
// "$dynamic" for calls of function values) inside one function: the call may write only
// the listed heap maps, and there only the footprint objects.
type AssumeFrame struct {
	Callee    string
	Modifies  []string
	Footprint []*Node
	Src       string
}

// Pin ties the assumed `global` facts about a package-level variable to the
// text of its initialiser.
type Pin struct {
	PkgPath string
	Var     string
	Text    string
}

type GlobalAssume struct {
	PkgPath string
	Expr    *Node
	Src     string
}

type GhostField struct {
	TypeStr string // struct type as written
	Name    string // "$name"
	Type    string // field type as written
	PkgPath string
}

type ContractSet struct {
	Ghosts  []*GhostField
	Funcs   map[string]*Contract // key: full ssa name e.g. "(github.com/invopop/gobl/num.Amount).Rescale"
	Specs   map[string]*SpecFunc
	Lemmas  []*Lemma
	Globals []GlobalAssume
	Pins    []Pin
	Order   []string
}

func NewContractSet() *ContractSet {
	return &ContractSet{Funcs: map[string]*Contract{}, Specs: map[string]*SpecFunc{}}
}

// readContractLines extracts the `//@` payload lines of a Go file (or all
// lines of a .vc file). Continuation: a line ending in `\` joins the next.
func readContractLines(path string) ([]string, []int, error) {
	data, err := os.ReadFile(path)
	if err != nil {
		return nil, nil, err
	}
	isGo := strings.HasSuffix(path, ".go")
	var lines []string
	var nums []int
	for i, l := range strings.Split(string(data), "\n") {
		t := strings.TrimSpace(l)
		if isGo {
			if !strings.HasPrefix(t, "//@") {
				continue
			}
			t = strings.TrimSpace(strings.TrimPrefix(t, "//@"))
		} else {
			if strings.HasPrefix(t, "#") {
				continue
			}
		}
		if t == "" {
			continue
		}
		// strip trailing `// comment`
		if k := strings.Index(t, " // "); k >= 0 {
			t = strings.TrimSpace(t[:k])
		}
		if len(lines) > 0 && strings.HasSuffix(lines[len(lines)-1], "\\") {
			lines[len(lines)-1] = strings.TrimSuffix(lines[len(lines)-1], "\\") + " " + t
			continue
		}
		lines = append(lines, t)
		nums = append(nums, i+1)
	}
	return lines, nums, nil
}

func parseClause(s string) (Clause, error) {
	s = strings.TrimSpace(s)
	label := ""
	if strings.HasPrefix(s, "[") {
		k := strings.Index(s, "]")
		if k > 0 {
			label = s[1:k]
			s = strings.TrimSpace(s[k+1:])
		}
	}
	e, err := ParseExpr(s)
	if err != nil {
		return Clause{}, err
	}
	return Clause{Label: label, Expr: e, Src: s}, nil
}

// parseFuncHeader parses `func (a Amount) Rescale(exp) (r)` /
// `func intPow(base, exp) (r)` / `func math.Round(v) (r)`.
func parseFuncHeader(s string, pkgName, pkgPath string) (*Contract, error) {
	c := &Contract{Loops: map[int]*LoopSpec{}, PkgPath: pkgPath}
	s = strings.TrimSpace(strings.TrimPrefix(s, "func"))
	recvType := ""
	if strings.HasPrefix(s, "(") {
		k := strings.Index(s, ")")
		if k < 0 {
			return nil, fmt.Errorf("bad receiver in %q", s)
		}
		parts := strings.Fields(s[1:k])
		if len(parts) == 2 {
			c.Recv = parts[0]
			recvType = parts[1]
		} else if len(parts) == 1 {
			c.Recv = "_recv"
			recvType = parts[0]
		} else {
			return nil, fmt.Errorf("bad receiver in %q", s)
		}
		s = strings.TrimSpace(s[k+1:])
	}
	k := strings.Index(s, "(")
	if k < 0 {
		return nil, fmt.Errorf("bad func header %q", s)
	}
	name := strings.TrimSpace(s[:k])
	rest := s[k:]
	// params
	depth := 0
	end := -1
	for i, ch := range rest {
		if ch == '(' {
			depth++
		} else if ch == ')' {
			depth--
			if depth == 0 {
				end = i
				break
			}
		}
	}
	if end < 0 {
		return nil, fmt.Errorf("bad params in %q", s)
	}
	c.Params = splitNames(rest[1:end])
	res := strings.TrimSpace(rest[end+1:])
	if strings.HasPrefix(res, "(") && strings.HasSuffix(res, ")") {
		c.Results = splitNames(res[1 : len(res)-1])
	} else if res != "" {
		c.Results = splitNames(res)
	}
	// key
	qual := func(t string) string {
		// t like Amount, *Amount, pkg.Type, *pkg.Type, full/path.Type
		star := ""
		if strings.HasPrefix(t, "*") {
			star = "*"
			t = t[1:]
		}
		if !strings.Contains(t, ".") {
			t = pkgPath + "." + t
		}
		return star + t
	}
	if recvType != "" {
		c.Key = "(" + qual(recvType) + ")." + name
	} else {
		if strings.Contains(name, ".") {
			c.Key = name
		} else {
			c.Key = pkgPath + "." + name
		}
	}
	_ = pkgName
	return c, nil
}

// splitTop splits at top-level commas.
func splitTop(s string) []string {
	var out []string
	depth := 0
	start := 0
	for i, c := range s {
		switch c {
		case '(', '[':
			depth++
		case ')', ']':
			depth--
		case ',':
			if depth == 0 {
				out = append(out, strings.TrimSpace(s[start:i]))
				start = i + 1
			}
		}
	}
	if strings.TrimSpace(s[start:]) != "" {
		out = append(out, strings.TrimSpace(s[start:]))
	}
	return out
}

func splitNames(s string) []string {
	var out []string
	for _, p := range strings.Split(s, ",") {
		p = strings.TrimSpace(p)
		if p == "" {
			continue
		}
		f := strings.Fields(p)
		out = append(out, f[0])
	}
	return out
}

// LoadContractFile parses one file into cs. pkgPath is the package the file
// belongs to ("" for extern files, which use fully qualified names and a
// `package <path>` line to switch the default).
func (cs *ContractSet) LoadContractFile(path, pkgPath string) error {
	lines, nums, err := readContractLines(path)
	if err != nil {
		return err
	}
	var cur *Contract
	var fileOpaque []string
	extern := !strings.HasSuffix(path, ".go")
	for i, l := range lines {
		fail := func(e error) error { return fmt.Errorf("%s:%d: %v", path, nums[i], e) }
		fields := strings.Fields(l)
		kw := fields[0]
		rest := strings.TrimSpace(strings.TrimPrefix(l, kw))
		switch kw {
		case "package":
			pkgPath = rest
			cur = nil
		case "spec", "pred", "rec":
			cur = nil
			sf, err := parseSpecFunc(rest, kw == "pred")
			if err == nil && kw == "rec" {
				sf.Rec = true
			}
			if err != nil {
				return fail(err)
			}
			sf.PkgPath = pkgPath
			if _, dup := cs.Specs[sf.Name]; dup {
				return fail(fmt.Errorf("duplicate spec function %s", sf.Name))
			}
			cs.Specs[sf.Name] = sf
			cs.Order = append(cs.Order, sf.Name)
		case "lemma":
			cur = nil
			lm, err := parseLemma(rest)
			if err != nil {
				return fail(err)
			}
			lm.PkgPath = pkgPath
			lm.File = path
			cs.Lemmas = append(cs.Lemmas, lm)
		case "ghost":
			cur = nil
			// ghost Type.$name fieldtype
			if len(fields) != 3 || !strings.Contains(fields[1], ".$") {
				return fail(fmt.Errorf("ghost needs: ghost Type.$name fieldtype"))
			}
			k := strings.LastIndex(fields[1], ".$")
			cs.Ghosts = append(cs.Ghosts, &GhostField{TypeStr: fields[1][:k], Name: fields[1][k+1:], Type: fields[2], PkgPath: pkgPath})
		case "global":
			cur = nil
			e, err := ParseExpr(rest)
			if err != nil {
				return fail(err)
			}
			cs.Globals = append(cs.Globals, GlobalAssume{PkgPath: pkgPath, Expr: e, Src: rest})
		case "pin":
			// pin <var> <initialiser text>: the `global` facts about <var> describe this
			// initialiser; if the source no longer reads so, the pin obligation fails
			cur = nil
			f := strings.SplitN(strings.TrimSpace(rest), " ", 2)
			if len(f) != 2 {
				return fail(fmt.Errorf("pin needs: pin <var> <initialiser text>"))
			}
			cs.Pins = append(cs.Pins, Pin{PkgPath: pkgPath, Var: f[0], Text: strings.TrimSpace(f[1])})
		case "func":
			c, err := parseFuncHeader(l, "", pkgPath)
			if err != nil {
				return fail(err)
			}
			c.Extern = extern
			c.File = path
			c.Line = nums[i]
			if _, dup := cs.Funcs[c.Key]; dup {
				return fail(fmt.Errorf("duplicate contract for %s", c.Key))
			}
			cs.Funcs[c.Key] = c
			c.Opaque = append(c.Opaque, fileOpaque...)
			cur = c
		case "assume":
			if cur == nil {
				return fail(fmt.Errorf("assume outside func"))
			}
			cl, err := parseClause(rest)
			if err != nil {
				return fail(err)
			}
			cur.Assumes = append(cur.Assumes, cl)
		case "requires", "ensures", "domain", "assert":
			if cur == nil {
				return fail(fmt.Errorf("%s outside func", kw))
			}
			cl, err := parseClause(rest)
			if err != nil {
				return fail(err)
			}
			switch kw {
			case "requires":
				cur.Requires = append(cur.Requires, cl)
			case "ensures":
				cur.Ensures = append(cur.Ensures, cl)
			case "domain":
				cur.Domain = append(cur.Domain, cl)
			case "assert":
				cur.Asserts = append(cur.Asserts, cl)
			}
		case "let":
			if cur == nil {
				return fail(fmt.Errorf("let outside func"))
			}
			k := strings.Index(rest, "=")
			if k < 0 {
				return fail(fmt.Errorf("let needs ="))
			}
			e, err := ParseExpr(rest[k+1:])
			if err != nil {
				return fail(err)
			}
			cur.Lets = append(cur.Lets, LetSpec{Name: strings.TrimSpace(rest[:k]), Expr: e})
		case "modifies":
			if cur == nil {
				return fail(fmt.Errorf("modifies outside func"))
			}
			for _, m := range strings.Split(rest, ",") {
				m = strings.TrimSpace(m)
				if m != "" && m != "nothing" {
					cur.Modifies = append(cur.Modifies, m)
				}
			}
		case "at-call":
			// at-call <callee> assert [label] <expr>
			if cur == nil {
				return fail(fmt.Errorf("at-call outside func"))
			}
			k := strings.Index(rest, " assert ")
			if k < 0 {
				return fail(fmt.Errorf("at-call needs: at-call <callee> assert <expr>"))
			}
			cl, err := parseClause(rest[k+8:])
			if err != nil {
				return fail(err)
			}
			cur.AtCalls = append(cur.AtCalls, AtCall{Callee: strings.TrimSpace(rest[:k]), Clause: cl})
		case "assume-frame":
			// assume-frame <callee|$dynamic> <modifies, ...> | <footprint expr, ...>
			if cur == nil {
				return fail(fmt.Errorf("assume-frame outside func"))
			}
			f := strings.SplitN(strings.TrimSpace(rest), " ", 2)
			if len(f) != 2 {
				return fail(fmt.Errorf("assume-frame needs: assume-frame <callee> <modifies> | <footprint>"))
			}
			af := AssumeFrame{Callee: f[0], Src: strings.TrimSpace(rest)}
			parts := strings.SplitN(f[1], "|", 2)
			for _, m := range strings.Split(parts[0], ",") {
				if m = strings.TrimSpace(m); m != "" {
					af.Modifies = append(af.Modifies, m)
				}
			}
			if len(parts) == 2 {
				for _, fe := range splitTop(parts[1]) {
					e, err := ParseExpr(fe)
					if err != nil {
						return fail(err)
					}
					af.Footprint = append(af.Footprint, e)
				}
			}
			cur.AssumeFrames = append(cur.AssumeFrames, af)
		case "use":
			// use <callee suffix> <label,label,...|none>: of that callee's postconditions only these are assumed
			if cur == nil || len(fields) != 3 {
				return fail(fmt.Errorf("use needs: use <callee> <labels|none>"))
			}
			if cur.Use == nil {
				cur.Use = map[string][]string{}
			}
			var ls []string
			if fields[2] != "none" {
				ls = strings.Split(fields[2], ",")
			}
			cur.Use[fields[1]] = ls
		case "dynamic":
			// dynamic <param> <Type>: verify for this dynamic type of an interface parameter
			if cur == nil || len(fields) != 3 {
				return fail(fmt.Errorf("dynamic needs: dynamic <param> <Type>"))
			}
			if cur.Dynamic == nil {
				cur.Dynamic = map[string]string{}
			}
			cur.Dynamic[fields[1]] = fields[2]
		case "strings":
			if cur == nil {
				return fail(fmt.Errorf("strings outside func"))
			}
			cur.Strings = true
		case "bytes":
			if cur == nil {
				return fail(fmt.Errorf("bytes outside func"))
			}
			cur.Bytes = true
		case "function":
			if cur == nil {
				return fail(fmt.Errorf("function outside func"))
			}
			cur.Function = true
		case "opaque-default":
			// applies to every function contract that follows in this file
			fileOpaque = append(fileOpaque, strings.Fields(strings.ReplaceAll(rest, ",", " "))...)
		case "opaque":
			if cur == nil {
				return fail(fmt.Errorf("opaque outside func"))
			}
			cur.Opaque = append(cur.Opaque, strings.Fields(strings.ReplaceAll(rest, ",", " "))...)
		case "footprint":
			if cur == nil {
				return fail(fmt.Errorf("footprint outside func"))
			}
			for _, part := range splitTop(rest) {
				e, err := ParseExpr(part)
				if err != nil {
					return fail(err)
				}
				cur.Footprint = append(cur.Footprint, e)
			}
		case "abstract":
			if cur == nil {
				return fail(fmt.Errorf("abstract outside func"))
			}
			e, err := ParseExpr(rest)
			if err != nil {
				return fail(err)
			}
			cur.Abstract = append(cur.Abstract, e)
		case "pure":
			if cur != nil {
				cur.Pure = true
			}
		case "proved":
			// contract in a .vc file for code outside /repo whose body is nevertheless verified
			if cur != nil {
				cur.Extern = false
			}
		case "trusted":
			if cur != nil {
				cur.NoVerify = true
				cur.Trusted = rest
			}
		case "split", "bound":
			if cur == nil {
				return fail(fmt.Errorf("split outside func"))
			}
			// split <expr> in lo..hi [thorough hi2] [for label1, label2]
			var onlyLabels []string
			if f := strings.LastIndex(rest, " for "); f >= 0 {
				for _, lb := range strings.Split(rest[f+5:], ",") {
					if lb = strings.TrimSpace(lb); lb != "" {
						onlyLabels = append(onlyLabels, lb)
					}
				}
				rest = strings.TrimSpace(rest[:f])
			}
			k := strings.LastIndex(rest, " in ")
			if k < 0 {
				return fail(fmt.Errorf("split needs 'in lo..hi'"))
			}
			e, err := ParseExpr(rest[:k])
			if err != nil {
				return fail(err)
			}
			var lo, hi, hi2 int
			rng := strings.TrimSpace(rest[k+4:])
			n, _ := fmt.Sscanf(rng, "%d..%d thorough %d", &lo, &hi, &hi2)
			if n < 2 {
				return fail(fmt.Errorf("bad split range %q", rng))
			}
			if n < 3 {
				hi2 = hi
			}
			cur.Splits = append(cur.Splits, SplitSpec{Expr: e, Lo: lo, Hi: hi, Hi2: hi2, Bounded: kw == "bound", Only: onlyLabels})
		case "loop":
			if cur == nil {
				return fail(fmt.Errorf("loop outside func"))
			}
			if len(fields) < 3 {
				return fail(fmt.Errorf("bad loop clause"))
			}
			var k int
			if _, err := fmt.Sscanf(fields[1], "%d", &k); err != nil {
				return fail(fmt.Errorf("bad loop ordinal %q", fields[1]))
			}
			ls := cur.Loops[k]
			if ls == nil {
				ls = &LoopSpec{}
				cur.Loops[k] = ls
			}
			sub := fields[2]
			body := strings.TrimSpace(strings.TrimPrefix(strings.TrimSpace(strings.TrimPrefix(rest, fields[1])), sub))
			switch sub {
			case "invariant":
				cl, err := parseClause(body)
				if err != nil {
					return fail(err)
				}
				ls.Invariants = append(ls.Invariants, cl)
			case "decreases":
				e, err := ParseExpr(body)
				if err != nil {
					return fail(err)
				}
				ls.Decreases = e
			case "modifies":
				for _, m := range strings.Split(body, ",") {
					m = strings.TrimSpace(m)
					if m != "" {
						ls.Modifies = append(ls.Modifies, m)
					}
				}
			default:
				return fail(fmt.Errorf("unknown loop clause %q", sub))
			}
		default:
			return fail(fmt.Errorf("unknown keyword %q", kw))
		}
	}
	return nil
}

// parseSpecFunc: name(p T, q U) R = expr
func parseSpecFunc(s string, macro bool) (*SpecFunc, error) {
	k := strings.Index(s, "(")
	if k < 0 {
		return nil, fmt.Errorf("bad spec %q", s)
	}
	sf := &SpecFunc{Name: strings.TrimSpace(s[:k]), Macro: macro}
	depth := 0
	end := -1
	for i := k; i < len(s); i++ {
		if s[i] == '(' {
			depth++
		} else if s[i] == ')' {
			depth--
			if depth == 0 {
				end = i
				break
			}
		}
	}
	if end < 0 {
		return nil, fmt.Errorf("bad spec params %q", s)
	}
	for _, p := range strings.Split(s[k+1:end], ",") {
		p = strings.TrimSpace(p)
		if p == "" {
			continue
		}
		f := strings.Fields(p)
		if len(f) != 2 {
			return nil, fmt.Errorf("spec param needs 'name type': %q", p)
		}
		sf.Params = append(sf.Params, f[0])
		sf.PTypes = append(sf.PTypes, f[1])
	}
	rest := strings.TrimSpace(s[end+1:])
	eq := strings.Index(rest, "=")
	if eq < 0 {
		return nil, fmt.Errorf("spec needs '= body': %q", s)
	}
	sf.RType = strings.TrimSpace(rest[:eq])
	body := strings.TrimSpace(rest[eq+1:])
	if body == "uninterpreted" {
		sf.Raw = "uninterpreted"
		return sf, nil
	}
	if strings.HasPrefix(body, "smt:") {
		sf.Raw = strings.TrimSpace(strings.TrimPrefix(body, "smt:"))
		return sf, nil
	}
	e, err := ParseExpr(body)
	if err != nil {
		return nil, err
	}
	sf.Body = e
	return sf, nil
}

// parseLemma: name(p T, ...): expr
func parseLemma(s string) (*Lemma, error) {
	k := strings.Index(s, "(")
	if k < 0 {
		return nil, fmt.Errorf("bad lemma %q", s)
	}
	lm := &Lemma{Name: strings.TrimSpace(s[:k])}
	end := strings.Index(s, "):")
	if end < 0 {
		return nil, fmt.Errorf("lemma needs '(params): body'")
	}
	for _, p := range strings.Split(s[k+1:end], ",") {
		p = strings.TrimSpace(p)
		if p == "" {
			continue
		}
		f := strings.Fields(p)
		if len(f) != 2 {
			return nil, fmt.Errorf("lemma param needs 'name type': %q", p)
		}
		lm.Params = append(lm.Params, f[0])
		lm.PTypes = append(lm.PTypes, f[1])
	}
	e, err := ParseExpr(strings.TrimSpace(s[end+2:]))
	if err != nil {
		return nil, err
	}
	lm.Body = e
	return lm, nil
}
