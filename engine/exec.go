package main

// Symbolic execution of SSA instructions.

import (
	"fmt"
	"go/token"
	"go/types"
	"strings"

	"golang.org/x/tools/go/ssa"
)

const two53 = "9007199254740992"
const two63 = "9223372036854775808"

// define binds an SSA value to its defining term. Small terms are used
// directly (no named constant), which keeps the conditions direct.
func (g *FuncGen) define(v ssa.Value, term string) {
	if _, seen := g.vals[v]; !seen && len(term) <= 160 {
		g.vals[v] = term
		return
	}
	g.assert(fmt.Sprintf("(= %s %s)", g.val(v), term))
}

func (g *FuncGen) guardAssert(guard, fact string) {
	if guard == "true" || guard == "" {
		g.assert(fact)
	} else {
		g.assert(fmt.Sprintf("(=> %s %s)", guard, fact))
	}
}

// check emits a safety obligation and afterwards assumes it on the path.
func (g *FuncGen) check(st *State, kind, goal, desc string, pos token.Pos) {
	if goal == "true" {
		return
	}
	o := g.oblige(kind, "", st.reach, goal, desc, pos)
	o.InEntry = g.depth == 0 && g.curBlock != nil && g.curBlock.Index == 0
	nr := g.newReach(st.reach)
	g.assert(fmt.Sprintf("(=> %s %s)", nr, goal))
	o.AssumeIdx = len(g.asserts) // 1-based index of the assumption that this check holds
	st.reach = nr
}

func (g *FuncGen) execBlock(b *ssa.BasicBlock, st *State) error {
	g.curBlock = b
	for _, ins := range b.Instrs {
		if err := g.execInstr(ins, st); err != nil {
			return err
		}
	}
	return nil
}

func (g *FuncGen) nilCheck(st *State, a *Addr, what string, pos token.Pos) {
	if a.fresh || g.nonNil[a.ref] {
		return
	}
	if a.idx != "" {
		return // slice element addresses are bounds-checked instead
	}
	g.check(st, "safe.nil", fmt.Sprintf("(not (= %s 0))", a.ref), "nil dereference: "+what, pos)
	g.nonNil[a.ref] = false
}

func (g *FuncGen) execInstr(ins ssa.Instruction, st *State) error {
	pos := g.posOf(ins)
	switch x := ins.(type) {
	case *ssa.DebugRef:
		return nil
	case *ssa.Phi:
		return nil // handled at block entry
	case *ssa.Alloc:
		if g.isLocalAlloc(x) {
			st.locals[x] = g.w.Zero(x.Type().Underlying().(*types.Pointer).Elem())
			return nil
		}
		ref := g.allocRef(st, "new:"+x.Name())
		g.zeroInit(st, ref, x.Type().Underlying().(*types.Pointer).Elem())
		g.vals[x] = ref
		return nil
	case *ssa.FieldAddr:
		base := g.addrOf(x.X)
		if base == nil {
			g.bail("FieldAddr on non-pointer")
		}
		pt := x.X.Type().Underlying().(*types.Pointer)
		if base.whole && base.local == nil {
			g.nilCheck(st, base, x.X.Name()+"."+pt.Elem().Underlying().(*types.Struct).Field(x.Field).Name(), pos)
		}
		g.addrs[x] = g.fieldAddr(base, pt.Elem(), x.Field)
		return nil
	case *ssa.IndexAddr:
		idx := g.val(x.Index)
		switch u := x.X.Type().Underlying().(type) {
		case *types.Slice:
			s := g.val(x.X)
			g.check(st, "safe.index", fmt.Sprintf("(and (<= 0 %s) (< %s (s_len %s)))", idx, idx, s), "index out of range: "+x.X.Name()+"["+x.Index.Name()+"]", pos)
			g.addrs[x] = &Addr{m: g.elemMap(u.Elem()), ref: fmt.Sprintf("(s_arr %s)", s), idx: fmt.Sprintf("(sidx %s %s)", s, idx), rootT: u.Elem(), typ: u.Elem(), fresh: g.fresh[fmt.Sprintf("(s_arr %s)", s)]}
		case *types.Pointer:
			at, ok := u.Elem().Underlying().(*types.Array)
			if !ok {
				g.bail("IndexAddr on pointer to non-array")
			}
			g.check(st, "safe.index", fmt.Sprintf("(and (<= 0 %s) (< %s %d))", idx, idx, at.Len()), "index out of range", pos)
			if al, isAl := x.X.(*ssa.Alloc); isAl && g.isLocalAlloc(al) {
				g.addrs[x] = &Addr{local: al, typ: at.Elem(), fresh: true, path: []pathStep{{field: -1, idx: idx, typ: u.Elem()}}}
			} else if base, ok := g.addrs[x.X]; ok && (!base.whole || base.local != nil) {
				n := *base
				n.path = append(append([]pathStep{}, base.path...), pathStep{field: -1, idx: idx, typ: u.Elem()})
				n.typ = at.Elem()
				g.addrs[x] = &n
			} else {
				base := g.addrOf(x.X)
				g.nilCheck(st, base, x.X.Name(), pos)
				g.addrs[x] = &Addr{m: g.elemMap(at.Elem()), ref: base.ref, idx: idx, rootT: at.Elem(), typ: at.Elem(), fresh: base.fresh}
			}
		default:
			g.bail("IndexAddr on %s", x.X.Type())
		}
		return nil
	case *ssa.Store:
		a := g.addrOf(x.Addr)
		if a == nil {
			g.bail("store through non-pointer")
		}
		if a.local != nil {
			st.locals[a.local] = g.update(st.locals[a.local], a.path, g.valOrAddr(x.Val, st))
			return nil
		}
		if a.whole || (len(a.path) == 0 && a.idx == "") {
			g.nilCheck(st, a, "*"+x.Addr.Name(), pos)
		}
		g.frameStore(st, a, x.Addr.Name(), pos)
		var maps []string
		st.heap, maps = g.store(st.heap, a, g.valOrAddr(x.Val, st))
		_ = maps
		return nil
	case *ssa.UnOp:
		return g.execUnOp(x, st)
	case *ssa.BinOp:
		return g.execBinOp(x, st)
	case *ssa.Convert:
		return g.execConvert(x, st)
	case *ssa.ChangeType:
		g.define(x, g.valOrAddr(x.X, st))
		return nil
	case *ssa.Field:
		g.define(x, g.w.selApply(g.w.fieldSel(x.X.Type(), x.Field), g.w.ctor(x.X.Type()), x.Field, g.val(x.X)))
		return nil
	case *ssa.Index:
		switch u := x.X.Type().Underlying().(type) {
		case *types.Array:
			idx := g.val(x.Index)
			g.check(st, "safe.index", fmt.Sprintf("(and (<= 0 %s) (< %s %d))", idx, idx, u.Len()), "array index out of range", pos)
			g.define(x, fmt.Sprintf("(select %s %s)", g.val(x.X), idx))
		default:
			// string indexing
			idx := g.val(x.Index)
			s := g.val(x.X)
			g.check(st, "safe.index", fmt.Sprintf("(and (<= 0 %s) (< %s (strlen %s)))", idx, idx, s), "string index out of range", pos)
			g.define(x, g.strByte(s, idx))
			g.assumeType(g.val(x), x.Type(), "", "")
		}
		return nil
	case *ssa.Extract:
		tup, ok := g.tuples[x.Tuple]
		if !ok {
			g.bail("extract from unknown tuple %s", x.Tuple.Name())
		}
		g.define(x, tup[x.Index])
		return nil
	case *ssa.Slice:
		return g.execSlice(x, st)
	case *ssa.MakeSlice:
		st2 := x.Type().Underlying().(*types.Slice)
		ln := g.val(x.Len)
		cp := g.val(x.Cap)
		g.check(st, "safe.makeslice", fmt.Sprintf("(and (<= 0 %s) (<= %s %s))", ln, ln, cp), "makeslice: len out of range", pos)
		ref := g.allocRef(st, "arr:"+x.Name())
		em := g.elemMap(st2.Elem())
		cur := g.heapGet(st.heap, em.Name, em.Sort)
		nv := g.freshConst("H:"+em.Name, em.Sort)
		g.assert(fmt.Sprintf("(= %s (store %s %s ((as const (Array Int %s)) %s)))", nv, cur, ref, g.w.SortOf(st2.Elem()), g.w.Zero(st2.Elem())))
		st.heap = g.heapSet(st.heap, em.Name, nv)
		g.define(x, fmt.Sprintf("(mk_slice %s 0 %s %s)", ref, ln, cp))
		g.fresh[fmt.Sprintf("(s_arr %s)", g.val(x))] = true
		return nil
	case *ssa.MakeMap:
		mt := x.Type().Underlying().(*types.Map)
		ref := g.allocRef(st, "map:"+x.Name())
		md, mv, ml := g.mapDom(mt, x.Type()), g.mapVal(mt, x.Type()), g.mapLen(mt)
		cur := g.heapGet(st.heap, md.Name, md.Sort)
		nv := g.freshConst("H:"+md.Name, md.Sort)
		g.assert(fmt.Sprintf("(= %s (store %s %s ((as const (Array %s Bool)) false)))", nv, cur, ref, g.w.SortOf(mt.Key())))
		st.heap = g.heapSet(st.heap, md.Name, nv)
		curL := g.heapGet(st.heap, ml.Name, ml.Sort)
		nl := g.freshConst("H:"+ml.Name, ml.Sort)
		g.assert(fmt.Sprintf("(= %s (store %s %s 0))", nl, curL, ref))
		st.heap = g.heapSet(st.heap, ml.Name, nl)
		_ = mv
		g.vals[x] = ref
		return nil
	case *ssa.MakeInterface:
		t := x.X.Type()
		id := g.w.TypeID(t)
		g.define(x, fmt.Sprintf("(mk_iface %d %s)", id, g.w.Box(t, g.valOrAddr(x.X, st))))
		return nil
	case *ssa.ChangeInterface:
		g.define(x, g.val(x.X))
		return nil
	case *ssa.TypeAssert:
		return g.execTypeAssert(x, st)
	case *ssa.MakeClosure:
		g.abstract("closure " + x.Fn.Name())
		v := g.val(x)
		g.assert(fmt.Sprintf("(> %s 0)", v))
		return nil
	case *ssa.Lookup:
		return g.execLookup(x, st)
	case *ssa.MapUpdate:
		return g.execMapUpdate(x, st)
	case *ssa.Range:
		return g.execRange(x, st)
	case *ssa.Next:
		return g.execNext(x, st)
	case *ssa.Call:
		return g.execCall(x, st)
	case *ssa.Jump:
		b := x.Block()
		return g.takeEdge(b, b.Succs[0], st.reach, st.heap, st.locals)
	case *ssa.If:
		b := x.Block()
		c := g.val(x.Cond)
		if err := g.takeEdge(b, b.Succs[0], and(st.reach, c), st.heap, st.locals); err != nil {
			return err
		}
		return g.takeEdge(b, b.Succs[1], and(st.reach, "(not "+c+")"), st.heap, st.locals)
	case *ssa.Return:
		return g.execReturn(x, st)
	case *ssa.Panic:
		g.oblige("safe.panic", "", st.reach, "false", "explicit panic reachable", pos)
		return nil
	case *ssa.RunDefers:
		return nil
	case *ssa.Defer, *ssa.Go, *ssa.Select, *ssa.Send:
		g.bail("%T outside the subset", ins)
	case *ssa.MultiConvert, *ssa.SliceToArrayPointer:
		g.bail("%T outside the subset", ins)
	}
	g.bail("instruction %T not handled", ins)
	return nil
}

// valOrAddr returns the term for v; an interior address used as a value is abstracted.
func (g *FuncGen) valOrAddr(v ssa.Value, st *State) string {
	return g.val(v)
}

// frameStore: a store to a map outside the contract's modifies set must hit an
// object allocated during this call.
func (g *FuncGen) frameStore(st *State, a *Addr, what string, pos token.Pos) {
	if g.rootC == nil || g.modifiesAll {
		return
	}
	if a.fresh {
		return
	}
	var names []string
	if a.whole {
		switch u := a.typ.Underlying().(type) {
		case *types.Struct:
			for i := 0; i < u.NumFields(); i++ {
				names = append(names, g.fieldMap(a.typ, i).Name)
			}
		default:
			names = append(names, a.m.Name)
		}
	} else {
		names = append(names, a.m.Name)
	}
	need := false
	for _, n := range names {
		if !g.ownMod[n] {
			need = true
		}
	}
	goal := fmt.Sprintf("(>= %s %s)", a.ref, g.alloc0)
	if !need {
		if len(g.ownFootprint) > 0 && a.idx != "" && len(names) == 1 {
			if eg := g.elemFootprintGoal(a.ref, names[0]); eg != "" {
				g.oblige("frame.store", "", st.reach, eg, "element store must target a footprint slice's array or a fresh array: "+what+" ("+names[0]+")", pos)
			}
			return
		}
		if len(g.ownFootprint) == 0 || a.idx != "" {
			return
		}
		// inside the modifies set, but the contract restricts writes to its footprint objects
		parts := []string{goal}
		for _, f := range g.ownFootprint {
			applies := false
			for _, n := range names {
				if footprintApplies(f.Type, n) {
					applies = true
				}
			}
			if applies {
				parts = append(parts, g.inFootprint(f, a.ref, g.entryHeap))
			}
		}
		goal = "(or " + strings.Join(parts, " ") + ")"
	}
	g.oblige("frame.store", "", st.reach, goal, "store must target the contract's footprint or a fresh object: "+what+" ("+strings.Join(names, ",")+")", pos)
}

func (g *FuncGen) execUnOp(x *ssa.UnOp, st *State) error {
	pos := g.posOf(x)
	switch x.Op {
	case token.MUL: // load
		a := g.addrOf(x.X)
		if a == nil {
			g.bail("load through non-pointer")
		}
		if a.local != nil {
			cur, ok := st.locals[a.local]
			if !ok {
				g.bail("local %s read before allocation", a.local.Name())
			}
			g.define(x, g.project(cur, a.path))
			return nil
		}
		if a.whole || (len(a.path) == 0 && a.idx == "") {
			g.nilCheck(st, a, "*"+x.X.Name(), pos)
		}
		g.define(x, g.load(st.heap, a))
		g.assumeType(g.val(x), x.Type(), g.allocTerm(st.heap), st.reach)
		return nil
	case token.NOT:
		g.define(x, "(not "+g.val(x.X)+")")
		return nil
	case token.SUB:
		v := g.val(x.X)
		if isFloatType(x.Type()) {
			g.define(x, "(- "+v+")")
			return nil
		}
		g.define(x, "(- "+v+")")
		g.overflowCheck(st, x, pos)
		return nil
	case token.XOR:
		g.abstract("bitwise complement")
		g.assumeType(g.val(x), x.Type(), "", "")
		return nil
	case token.ARROW:
		g.bail("channel receive outside the subset")
	}
	g.bail("unop %s", x.Op)
	return nil
}

func (g *FuncGen) overflowCheck(st *State, v ssa.Value, pos token.Pos) {
	lo, hi, ok := intRange(v.Type())
	if !ok {
		return
	}
	t := g.val(v)
	g.check(st, "overflow", fmt.Sprintf("(and (<= %s %s) (<= %s %s))", lo, t, t, hi), "integer overflow in "+v.Name()+" ("+v.Type().String()+")", pos)
}

func (g *FuncGen) execBinOp(x *ssa.BinOp, st *State) error {
	pos := g.posOf(x)
	a, b := g.valOrAddr(x.X, st), g.valOrAddr(x.Y, st)
	xt := x.X.Type()
	switch x.Op {
	case token.EQL, token.NEQ:
		eq := fmt.Sprintf("(= %s %s)", a, b)
		if _, ok := xt.Underlying().(*types.Slice); ok {
			// only comparison with nil is legal
			var s string
			if c, isC := x.X.(*ssa.Const); isC && c.Value == nil {
				s = b
			} else {
				s = a
			}
			eq = fmt.Sprintf("(= (s_arr %s) 0)", s)
		}
		if isStringType(xt) && g.rootC != nil && g.rootC.Bytes && !g.w.useStrings {
			g.strExt(a, b)
		}
		if x.Op == token.NEQ {
			eq = "(not " + eq + ")"
		}
		g.define(x, eq)
		return nil
	case token.LSS, token.LEQ, token.GTR, token.GEQ:
		op := map[token.Token]string{token.LSS: "<", token.LEQ: "<=", token.GTR: ">", token.GEQ: ">="}[x.Op]
		if isStringType(xt) {
			g.define(x, g.strCompare(op, a, b))
			return nil
		}
		g.define(x, fmt.Sprintf("(%s %s %s)", op, a, b))
		return nil
	}
	if isStringType(x.Type()) && x.Op == token.ADD {
		g.define(x, g.strConcat(a, b))
		return nil
	}
	if isFloatType(x.Type()) {
		return g.execFloatOp(x, a, b, st)
	}
	if !isIntType(x.Type()) {
		g.bail("binop %s on %s", x.Op, x.Type())
	}
	switch x.Op {
	case token.ADD:
		g.define(x, fmt.Sprintf("(+ %s %s)", a, b))
		g.overflowCheck(st, x, pos)
	case token.SUB:
		g.define(x, fmt.Sprintf("(- %s %s)", a, b))
		g.overflowCheck(st, x, pos)
	case token.MUL:
		g.define(x, fmt.Sprintf("(* %s %s)", a, b))
		g.overflowCheck(st, x, pos)
	case token.QUO:
		g.check(st, "safe.div", fmt.Sprintf("(not (= %s 0))", b), "integer division by zero", pos)
		g.define(x, fmt.Sprintf("(tdiv %s %s)", a, b))
		g.overflowCheck(st, x, pos)
	case token.REM:
		g.check(st, "safe.div", fmt.Sprintf("(not (= %s 0))", b), "integer division by zero", pos)
		g.define(x, fmt.Sprintf("(trem %s %s)", a, b))
	case token.SHL, token.SHR:
		if c, ok := x.Y.(*ssa.Const); ok && c.Value != nil {
			k := c.Int64()
			if k >= 0 && k < 63 {
				p := fmt.Sprintf("%d", int64(1)<<uint(k))
				if x.Op == token.SHL {
					g.define(x, fmt.Sprintf("(* %s %s)", a, p))
					g.overflowCheck(st, x, pos)
				} else {
					g.define(x, fmt.Sprintf("(div %s %s)", a, p))
				}
				return nil
			}
		}
		if x.Op == token.SHL && isIntType(x.Type()) {
			// a << n for 0 <= n <= 62 (obligation; a larger or negative count is outside the model)
			g.check(st, "safe.shift", fmt.Sprintf("(and (<= 0 %s) (<= %s 62))", b, b), "shift count must be within 0..62", pos)
			g.define(x, fmt.Sprintf("(* %s (pow2 %s))", a, b))
			g.overflowCheck(st, x, pos)
			return nil
		}
		g.abstract("shift by non-constant")
		g.assumeType(g.val(x), x.Type(), "", "")
	case token.AND:
		// x & (2^k - 1) for a non-negative x is x mod 2^k (the only bit operation modelled)
		if c, ok := x.Y.(*ssa.Const); ok && c.Value != nil && isIntType(x.Type()) {
			m := c.Int64()
			if m > 0 && m < (1<<40) && (m&(m+1)) == 0 {
				nonneg := fmt.Sprintf("(>= %s 0)", a)
				r := g.freshConst("and", "Int")
				g.assert(fmt.Sprintf("(=> %s (= %s (mod %s %d)))", nonneg, r, a, m+1))
				g.assert(fmt.Sprintf("(and (<= 0 %s) (<= %s %d))", r, r, m))
				g.define(x, r)
				return nil
			}
		}
		g.abstract("bit operation " + x.Op.String())
		g.assumeType(g.val(x), x.Type(), "", "")
	default:
		g.abstract("bit operation " + x.Op.String())
		g.assumeType(g.val(x), x.Type(), "", "")
	}
	return nil
}

// Floating point: a float64 is a Real; each IEEE operation is specified by
// sound facts about round-to-nearest (A-IEEE), instantiated at the operation.
func (g *FuncGen) execFloatOp(x *ssa.BinOp, a, b string, st *State) error {
	q := g.val(x)
	g.eng.noteAssumption(g, "A-IEEE")
	switch x.Op {
	case token.MUL, token.ADD, token.SUB:
		op := map[token.Token]string{token.MUL: "*", token.ADD: "+", token.SUB: "-"}[x.Op]
		exact := fmt.Sprintf("(%s %s %s)", op, a, b)
		if strings.HasPrefix(a, "(to_real ") && strings.HasPrefix(b, "(to_real ") {
			// same value, written over the integers so that it coincides textually with contract terms
			exact = fmt.Sprintf("(to_real (%s %s %s))", op, a[9:len(a)-1], b[9:len(b)-1])
		}
		// required to be exact: integral operands and |result| <= 2^53 (obligation);
		// the operation is then the mathematical one.
		g.check(st, "fexact", fmt.Sprintf("(and (is_int %s) (is_int %s) (<= (rabs %s) %s.0))", a, b, exact, two53), "float64 "+op+" must be exact (integral operands, |result| <= 2^53)", g.posOf(x))
		g.define(x, exact)
	case token.QUO:
		// q ~ a/b, b != 0 (division by zero gives Inf/NaN: obligation)
		g.check(st, "safe.fdiv", fmt.Sprintf("(not (= %s 0.0))", b), "floating-point division by zero", g.posOf(x))
		// F1: |q*b - a| <= 2^-53 |a|
		g.assert(fmt.Sprintf("(<= (* %s.0 (rabs (- (* %s %s) %s))) (rabs %s))", two53, q, b, a, a))
		// F2/F3 with integer witness m = floor(2a/b)
		m := g.freshConst("fdiv.m", "Int")
		mr := fmt.Sprintf("(to_real %s)", m)
		if strings.HasPrefix(a, "(to_real ") && strings.HasPrefix(b, "(to_real ") {
			// integral operands: the bracketing facts are stated over the integers
			ai, bi := a[9:len(a)-1], b[9:len(b)-1]
			g.assert(fmt.Sprintf("(=> (> %s 0) (and (<= (* %s %s) (* 2 %s)) (< (* 2 %s) (+ (* %s %s) %s))))", bi, bi, m, ai, ai, bi, m, bi))
			g.assert(fmt.Sprintf("(=> (< %s 0) (and (>= (* %s %s) (* 2 %s)) (> (* 2 %s) (+ (* %s %s) %s))))", bi, bi, m, ai, ai, bi, m, bi))
			g.assert(fmt.Sprintf("(=> (< (iabs %s) %s) (and (<= (/ %s 2.0) %s) (<= %s (/ (+ %s 1.0) 2.0))))", m, two53, mr, q, q, mr))
			g.assert(fmt.Sprintf("(=> (and (< (iabs %s) %s) (= (* %s %s) (* 2 %s))) (= %s (/ %s 2.0)))", m, two53, bi, m, ai, q, mr))
		} else {
			g.assert(fmt.Sprintf("(=> (> %s 0.0) (and (<= (* %s %s) (* 2.0 %s)) (< (* 2.0 %s) (+ (* %s %s) %s))))", b, b, mr, a, a, b, mr, b))
			g.assert(fmt.Sprintf("(=> (< %s 0.0) (and (>= (* %s %s) (* 2.0 %s)) (> (* 2.0 %s) (+ (* %s %s) %s))))", b, b, mr, a, a, b, mr, b))
			g.assert(fmt.Sprintf("(=> (< (iabs %s) %s) (and (<= (/ %s 2.0) %s) (<= %s (/ (+ %s 1.0) 2.0))))", m, two53, mr, q, q, mr))
			g.assert(fmt.Sprintf("(=> (and (< (iabs %s) %s) (= (* %s %s) (* 2.0 %s))) (= %s (/ %s 2.0)))", m, two53, b, mr, a, q, mr))
		}
	default:
		g.abstract("float op " + x.Op.String())
	}
	return nil
}

func (g *FuncGen) execConvert(x *ssa.Convert, st *State) error {
	pos := g.posOf(x)
	from, to := x.X.Type(), x.Type()
	v := g.valOrAddr(x.X, st)
	switch {
	case isIntType(from) && isIntType(to):
		g.define(x, v)
		g.overflowCheck(st, x, pos)
	case isIntType(from) && isFloatType(to):
		// The conversion is required to be exact (obligation), and is then the
		// identity on the mathematical value. float64 represents every integer
		// of magnitude <= 2^53 and every power of ten up to 10^22 exactly.
		g.eng.noteAssumption(g, "A-IEEE")
		g.check(st, "fexact", fmt.Sprintf("(or (<= (iabs %s) %s) (= (iabs %s) 10000000000000000) (= (iabs %s) 100000000000000000) (= (iabs %s) 1000000000000000000))", v, two53, v, v, v), "int->float64 conversion must be exact: "+x.X.Name(), pos)
		g.define(x, toRealTerm(v))
	case isFloatType(from) && isIntType(to):
		// truncation toward zero; out-of-range is implementation-defined: obligation
		tr := fmt.Sprintf("(ite (>= %s 0.0) (to_int %s) (- (to_int (- %s))))", v, v, v)
		g.define(x, tr)
		g.overflowCheck(st, x, pos)
	case isFloatType(from) && isFloatType(to):
		g.define(x, v)
	case isStringType(to) && isIntType(from):
		if g.w.useStrings {
			g.abstract("string(rune)")
			break
		}
		// string(r): for an ASCII code point, the one-byte string holding it;
		// otherwise only a function of r (under-specified, sound)
		f := g.ufun("str.ofrune", "(Int) Str")
		r := fmt.Sprintf("(%s %s)", f, v)
		g.define(x, r)
		g.assert(fmt.Sprintf("(=> (and (<= 0 %s) (< %s 128)) (and (= (strlen %s) 1) (= %s %s)))", v, v, r, g.strByte(r, "0"), v))
		// any other code point (or an invalid one, which reads U+FFFD) is encoded in two
		// to four bytes, the first of which is at least 0xC2
		g.assert(fmt.Sprintf("(=> (or (< %s 0) (>= %s 128)) (and (>= (strlen %s) 2) (>= %s 194)))", v, v, r, g.strByte(r, "0")))
	case isStringType(to) || isStringType(from):
		// string <-> []byte / []rune
		g.execStringConv(x, st)
	default:
		if _, ok := to.Underlying().(*types.Pointer); ok {
			g.define(x, v)
			return nil
		}
		g.bail("convert %s -> %s", from, to)
	}
	return nil
}

func toRealTerm(v string) string {
	return "(to_real " + v + ")"
}

func (g *FuncGen) execSlice(x *ssa.Slice, st *State) error {
	pos := g.posOf(x)
	lo := "0"
	if x.Low != nil {
		lo = g.val(x.Low)
	}
	switch u := x.X.Type().Underlying().(type) {
	case *types.Slice:
		s := g.val(x.X)
		hi := fmt.Sprintf("(s_len %s)", s)
		if x.High != nil {
			hi = g.val(x.High)
		}
		mx := fmt.Sprintf("(s_cap %s)", s)
		if x.Max != nil {
			mx = g.val(x.Max)
		}
		g.check(st, "safe.slice", fmt.Sprintf("(and (<= 0 %s) (<= %s %s) (<= %s %s) (<= %s (s_cap %s)))", lo, lo, hi, hi, mx, mx, s), "slice bounds out of range", pos)
		g.define(x, fmt.Sprintf("(mk_slice (s_arr %s) (+ (s_off %s) %s) (- %s %s) (- %s %s))", s, s, lo, hi, lo, mx, lo))
		if g.fresh[fmt.Sprintf("(s_arr %s)", s)] {
			g.fresh[fmt.Sprintf("(s_arr %s)", g.val(x))] = true
		}
	case *types.Pointer: // *[N]T
		at := u.Elem().Underlying().(*types.Array)
		base := g.addrOf(x.X)
		if _, interior := g.addrs[x.X]; interior {
			g.bail("slice of interior array")
		}
		hi := fmt.Sprintf("%d", at.Len())
		if x.High != nil {
			hi = g.val(x.High)
		}
		g.check(st, "safe.slice", fmt.Sprintf("(and (<= 0 %s) (<= %s %s) (<= %s %d))", lo, lo, hi, hi, at.Len()), "slice bounds out of range", pos)
		g.define(x, fmt.Sprintf("(mk_slice %s %s (- %s %s) (- %d %s))", base.ref, lo, hi, lo, at.Len(), lo))
		if base.fresh {
			g.fresh[fmt.Sprintf("(s_arr %s)", g.val(x))] = true
		}
	case *types.Basic: // string
		s := g.val(x.X)
		hi := fmt.Sprintf("(strlen %s)", s)
		if x.High != nil {
			hi = g.val(x.High)
		}
		g.check(st, "safe.slice", fmt.Sprintf("(and (<= 0 %s) (<= %s %s) (<= %s (strlen %s)))", lo, lo, hi, hi, s), "string slice bounds out of range", pos)
		g.define(x, g.strSubstr(s, lo, hi))
	default:
		g.bail("slice of %s", x.X.Type())
	}
	return nil
}

func (g *FuncGen) execTypeAssert(x *ssa.TypeAssert, st *State) error {
	v := g.val(x.X)
	if _, isIface := x.AssertedType.Underlying().(*types.Interface); isIface {
		// interface-to-interface assertion: dynamic method set unknown
		ok := g.freshConst("ta.ok", "Bool")
		g.assert(fmt.Sprintf("(=> %s (not (= (i_typ %s) 0)))", ok, v))
		if x.CommaOk {
			g.tuples[x] = []string{fmt.Sprintf("(ite %s %s nil_iface)", ok, v), ok}
		} else {
			g.check(st, "safe.typeassert", ok, "type assertion may fail", g.posOf(x))
			g.define(x, v)
		}
		return nil
	}
	id := g.w.TypeID(x.AssertedType)
	ok := fmt.Sprintf("(= (i_typ %s) %d)", v, id)
	payload := g.w.Unbox(x.AssertedType, fmt.Sprintf("(i_val %s)", v))
	// a value held by an interface is a well-formed value of its dynamic type
	g.assumeType(payload, x.AssertedType, g.allocTerm(st.heap), "")
	if x.CommaOk {
		g.tuples[x] = []string{fmt.Sprintf("(ite %s %s %s)", ok, payload, g.w.Zero(x.AssertedType)), ok}
	} else {
		g.check(st, "safe.typeassert", ok, "type assertion may fail", g.posOf(x))
		g.define(x, payload)
	}
	return nil
}

// ---------- maps ----------

func (g *FuncGen) execLookup(x *ssa.Lookup, st *State) error {
	mt, ok := x.X.Type().Underlying().(*types.Map)
	if !ok {
		// string index
		idx := g.val(x.Index)
		s := g.val(x.X)
		g.check(st, "safe.index", fmt.Sprintf("(and (<= 0 %s) (< %s (strlen %s)))", idx, idx, s), "string index out of range", g.posOf(x))
		g.define(x, g.strByte(s, idx))
		g.assumeType(g.val(x), x.Type(), "", "")
		return nil
	}
	m := g.val(x.X)
	k := g.val(x.Index)
	md, mv := g.mapDom(mt, nil), g.mapVal(mt, nil)
	in := fmt.Sprintf("(and (not (= %s 0)) (select (select %s %s) %s))", m, g.heapGet(st.heap, md.Name, md.Sort), m, k)
	val := fmt.Sprintf("(ite %s (select (select %s %s) %s) %s)", in, g.heapGet(st.heap, mv.Name, mv.Sort), m, k, g.w.Zero(mt.Elem()))
	if x.CommaOk {
		vt := g.freshConst("lk", g.w.SortOf(mt.Elem()))
		g.assert(fmt.Sprintf("(= %s %s)", vt, val))
		g.assumeType(vt, mt.Elem(), g.allocTerm(st.heap), st.reach)
		g.tuples[x] = []string{vt, in}
	} else {
		g.define(x, val)
		g.assumeType(g.val(x), mt.Elem(), g.allocTerm(st.heap), st.reach)
	}
	return nil
}

func (g *FuncGen) execMapUpdate(x *ssa.MapUpdate, st *State) error {
	mt := x.Map.Type().Underlying().(*types.Map)
	m := g.val(x.Map)
	k := g.val(x.Key)
	v := g.val(x.Value)
	g.check(st, "safe.nilmap", fmt.Sprintf("(not (= %s 0))", m), "assignment to entry in nil map", g.posOf(x))
	md, mv, ml := g.mapDom(mt, nil), g.mapVal(mt, nil), g.mapLen(mt)
	if g.rootC != nil && !g.modifiesAll && !g.fresh[m] && !(g.ownMod[md.Name] && g.ownMod[mv.Name]) {
		g.oblige("frame.store", "", st.reach, fmt.Sprintf("(>= %s %s)", m, g.alloc0), "map update outside modifies set must target a fresh map", g.posOf(x))
	}
	curD := g.heapGet(st.heap, md.Name, md.Sort)
	curV := g.heapGet(st.heap, mv.Name, mv.Sort)
	curL := g.heapGet(st.heap, ml.Name, ml.Sort)
	nd := g.freshConst("H:"+md.Name, md.Sort)
	nv := g.freshConst("H:"+mv.Name, mv.Sort)
	nl := g.freshConst("H:"+ml.Name, ml.Sort)
	g.assert(fmt.Sprintf("(= %s (store %s %s (store (select %s %s) %s true)))", nd, curD, m, curD, m, k))
	g.assert(fmt.Sprintf("(= %s (store %s %s (store (select %s %s) %s %s)))", nv, curV, m, curV, m, k, v))
	g.assert(fmt.Sprintf("(= %s (store %s %s (ite (select (select %s %s) %s) (select %s %s) (+ (select %s %s) 1))))", nl, curL, m, curD, m, k, curL, m, curL, m))
	g.assert(fmt.Sprintf("(>= (select %s %s) 1)", nl, m))
	st.heap = g.heapSet(g.heapSet(g.heapSet(st.heap, md.Name, nd), mv.Name, nv), ml.Name, nl)
	return nil
}

// Range over a map: ghost visited set, each key once in arbitrary order.
func (g *FuncGen) execRange(x *ssa.Range, st *State) error {
	g.vals[x] = g.val(x.X) // the iterator is identified with the map ref / the string
	return nil
}

// Range over a string: a ghost byte position ($pos), loop-carried. At an
// ASCII byte the step yields that byte as the rune and advances by one, which
// is exactly what Go does. At any other byte the rune is only known to be
// >= 128 (a decoded code point or U+FFFD) and the position advances by one to
// four bytes: an over-approximation of UTF-8 decoding, so nothing is assumed
// about strings that hold multi-byte text.
func (g *FuncGen) execNextString(x *ssa.Next, st *State) error {
	rng, ok := x.Iter.(*ssa.Range)
	if !ok {
		g.bail("next on non-range")
	}
	head := x.Block()
	if g.loops[head] == nil {
		g.bail("string iteration step outside a loop head")
	}
	s := g.val(rng.X)
	pos, has := g.strPos[head]
	if !has {
		pos = g.freshConst("pos", "Int")
		g.strPos[head] = pos
	}
	okc := fmt.Sprintf("(< %s (strlen %s))", pos, s)
	b := g.strByte(s, pos)
	g.guardAssert(st.reach, fmt.Sprintf("(and (<= 0 %s) (<= %s (strlen %s)))", pos, pos, s))
	g.guardAssert(st.reach, fmt.Sprintf("(and (<= 0 %s) (<= %s 255))", b, b))
	r := g.freshConst("next.rune", "Int")
	nx := g.freshConst("next.pos", "Int")
	g.guardAssert(st.reach, fmt.Sprintf("(=> %s (ite (< %s 128) (and (= %s %s) (= %s (+ %s 1))) (and (>= %s 128) (<= %s 1114111) (> %s %s) (<= %s (+ %s 4)) (<= %s (strlen %s)))))", okc, b, r, b, nx, pos, r, r, nx, pos, nx, pos, nx, s))
	g.tuples[x] = []string{okc, pos, r}
	g.strNext[head] = nx
	return nil
}

func (g *FuncGen) execNext(x *ssa.Next, st *State) error {
	if x.IsString {
		return g.execNextString(x, st)
	}
	rng, ok := x.Iter.(*ssa.Range)
	if !ok {
		g.bail("next on non-range")
	}
	mt := rng.X.Type().Underlying().(*types.Map)
	m := g.val(rng.X)
	md, mv := g.mapDom(mt, nil), g.mapVal(mt, nil)
	dom := fmt.Sprintf("(select %s %s)", g.heapGet(st.heap, md.Name, md.Sort), m)
	vals := fmt.Sprintf("(select %s %s)", g.heapGet(st.heap, mv.Name, mv.Sort), m)
	ks := g.w.SortOf(mt.Key())
	// visited set at this loop head (ghost, loop-carried)
	head := x.Block()
	vis, has := g.visited[head]
	if !has {
		vis = g.freshConst("visited", "(Array "+ks+" Bool)")
		g.visited[head] = vis
	}
	if g.loops[head] == nil {
		g.bail("map iteration step outside a loop head")
	}
	okc := g.freshConst("next.ok", "Bool")
	k := g.freshConst("next.k", ks)
	v := g.freshConst("next.v", g.w.SortOf(mt.Elem()))
	// ok => k in dom, not visited, v = val[k]; !ok => every key of dom visited (or nil map)
	g.guardAssert(st.reach, fmt.Sprintf("(=> %s (and (not (= %s 0)) (select %s %s) (not (select %s %s)) (= %s (select %s %s))))", okc, m, dom, k, vis, k, v, vals, k))
	g.guardAssert(st.reach, fmt.Sprintf("(=> (not %s) (or (= %s 0) (forall ((kk %s)) (! (=> (select %s kk) (select %s kk)) :pattern ((select %s kk))))))", okc, m, ks, dom, vis, dom))
	g.assumeType(k, mt.Key(), g.allocTerm(st.heap), st.reach)
	g.assumeType(v, mt.Elem(), g.allocTerm(st.heap), st.reach)
	g.tuples[x] = []string{okc, k, v}
	g.nextKey[head] = k
	return nil
}

// ---------- return ----------

func (g *FuncGen) execReturn(x *ssa.Return, st *State) error {
	if g.depth > 0 {
		ri := retInfo{reach: st.reach, heap: st.heap}
		for _, r := range x.Results {
			ri.results = append(ri.results, g.valOrAddr(r, st))
		}
		g.returns = append(g.returns, ri)
		return nil
	}
	if g.c == nil {
		return nil
	}
	g.retReaches = append(g.retReaches, st.reach)
	env := &Env{g: g, vars: map[string]Val{}, heap: st.heap, old: g.entryHeap, pkg: g.pkg}
	for k, v := range g.paramTerms {
		env.vars[k] = v
	}
	if len(g.c.Results) > len(x.Results) {
		return fmt.Errorf("%s: contract names %d results, function returns %d — contract out of date", g.fname, len(g.c.Results), len(x.Results))
	}
	var ins []ModelVar
	for i, r := range x.Results {
		if i < len(g.c.Results) {
			env.vars[g.c.Results[i]] = Val{g.valOrAddr(r, st), r.Type()}
		}
	}
	_ = ins
	var retTerms []string
	for _, r := range x.Results {
		retTerms = append(retTerms, g.valOrAddr(r, st))
	}
	for _, cl := range g.c.Ensures {
		t, err := g.evalBool(cl.Expr, env)
		if err != nil {
			return fmt.Errorf("%s: ensures %s: %v", g.fname, cl.Src, err)
		}
		g.obligePost(cl, st.reach, t, x.Pos())
		key := cl.Label + "\x00" + cl.Src
		pp := g.posts[key]
		pp.parts[len(pp.parts)-1].Results = retTerms
	}
	return nil
}

// obligePost collects, per ensures clause, the goal at every return; one
// obligation per clause is emitted at the end (named by clause, stable under
// edits that add or reorder return statements).
func (g *FuncGen) obligePost(cl Clause, guard, goal string, pos token.Pos) {
	key := cl.Label + "\x00" + cl.Src
	pp := g.posts[key]
	if pp == nil {
		pp = &postParts{cl: cl}
		g.posts[key] = pp
		g.postOrder = append(g.postOrder, key)
	}
	pp.parts = append(pp.parts, Part{Guard: guard, Goal: goal})
	if pos.IsValid() && pp.pos == "" {
		p := g.eng.fset.Position(pos)
		pp.pos = fmt.Sprintf("%s:%d", strings.TrimPrefix(p.Filename, g.eng.repo+"/"), p.Line)
	}
}

type postParts struct {
	cl    Clause
	parts []Part
	pos   string
}

func (g *FuncGen) flushPosts() {
	// vacuity: some return must be reachable under everything assumed along the way
	if len(g.retReaches) > 0 {
		guard := g.retReaches[0]
		if len(g.retReaches) > 1 {
			guard = "(or " + strings.Join(g.retReaches, " ") + ")"
		}
		g.counts["cover.ret"]++
		g.obls = append(g.obls, &Obligation{Name: g.fname + "#cover.ret.1", Func: g.fname, Kind: "cover.ret", Guard: guard, Goal: "true", Desc: "a return is reachable (assumptions along the paths are consistent)", WantSat: true, Gen: g})
	}
	for _, key := range g.postOrder {
		pp := g.posts[key]
		idx := 0
		for i := range g.c.Ensures {
			if g.c.Ensures[i].Src == pp.cl.Src && g.c.Ensures[i].Label == pp.cl.Label {
				idx = i + 1
				break
			}
		}
		name := fmt.Sprintf("%s#post.%d", g.fname, idx)
		if pp.cl.Label != "" {
			name = fmt.Sprintf("%s#post:%s", g.fname, pp.cl.Label)
		}
		o := &Obligation{Name: name, Func: g.fname, Kind: "post", Parts: pp.parts, Desc: "ensures " + pp.cl.Src, Gen: g, Pos: pp.pos}
		g.obls = append(g.obls, o)
	}
}
