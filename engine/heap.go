package main

// Symbolic heap: a lazily materialised, versioned family of SMT array
// constants, one per (struct type, field) / element type / cell type / map type.

import (
	"fmt"
	"go/types"
	"sort"
	"strings"
)

const (
	hParam = iota + 100 // heap maps are formal parameters (body of a recursive spec function)
)

const (
	hEntry = iota
	hOverride
	hMerge
	hHavoc
	hLoop
)

type Heap struct {
	kind   int
	id     int
	parent *Heap
	// hOverride
	name string
	term string
	// hMerge
	preds []*Heap
	conds []string
	// hHavoc: names havocked (nil = all)
	havoc   map[string]bool
	noFrame bool // call havoc: the frame is an obligation of the caller, not an axiom
	// hLoop: modified names (nil = all); entry preds in preds/conds
	memo map[string]string
	paramOrder [][2]string
}

func (g *FuncGen) newHeap(kind int) *Heap {
	g.heapSeq++
	return &Heap{kind: kind, id: g.heapSeq, memo: map[string]string{}}
}

// heapGet returns the SMT term of heap map `name` (of sort `srt`) in heap h.
func (g *FuncGen) heapGet(h *Heap, name, srt string) string {
	if t, ok := h.memo[name]; ok {
		return t
	}
	var t string
	switch h.kind {
	case hParam:
		t = q("hp:" + name)
		h.paramOrder = append(h.paramOrder, [2]string{name, srt})
	case hEntry:
		t = g.declare("H0:"+name, srt)
		g.heapSorts[name] = srt
		// heap closure: every reference stored in the entry heap was allocated before entry
		if g.alloc0 != "" {
			g.closure(name, t, g.alloc0)
		}
	case hOverride:
		if h.name == name {
			t = h.term
		} else {
			t = g.heapGet(h.parent, name, srt)
		}
	case hHavoc:
		mod := h.havoc == nil || h.havoc[name]
		if mod {
			t = g.declare(fmt.Sprintf("H%d:%s", h.id, name), srt)
			if name == "$alloc" {
				g.assert(fmt.Sprintf("(>= %s %s)", t, g.heapGet(h.parent, name, srt)))
			} else {
				if !h.noFrame {
					g.frameAxiom(h, name, srt, t)
				}
				g.closure(name, t, g.heapGet(h, "$alloc", "Int"))
			}
		} else {
			t = g.heapGet(h.parent, name, srt)
		}
	case hLoop:
		mod := h.havoc == nil || h.havoc[name]
		if mod {
			t = g.declare(fmt.Sprintf("H%d:%s", h.id, name), srt)
			if name == "$alloc" {
				g.assert(fmt.Sprintf("(>= %s %s)", t, g.mergeGet(h, name, srt)))
			} else {
				g.frameAxiom(h, name, srt, t)
				g.closure(name, t, g.heapGet(h, "$alloc", "Int"))
			}
		} else {
			t = g.mergeGet(h, name, srt)
		}
	case hMerge:
		t = g.mergeGet(h, name, srt)
	}
	h.memo[name] = t
	return t
}

// closure: every reference stored in an *allocated* cell of heap map t is below the
// allocation counter `alloc` of that heap (cells of objects not yet allocated are arbitrary:
// a callee's fresh objects live there).
func (g *FuncGen) closure(name, t, alloc string) {
	switch g.mapRefKind[name] {
	case "ref":
		g.assert(fmt.Sprintf("(forall ((r Int)) (! (=> (< r %s) (and (<= 0 (select %s r)) (< (select %s r) %s))) :pattern ((select %s r))))", alloc, t, t, alloc, t))
	case "slice":
		g.assert(fmt.Sprintf("(forall ((r Int)) (! (=> (< r %s) (and (wf_slice (select %s r)) (< (s_arr (select %s r)) %s))) :pattern ((select %s r))))", alloc, t, t, alloc, t))
	case "elemref":
		g.assert(fmt.Sprintf("(forall ((a Int) (i Int)) (! (=> (< a %s) (and (<= 0 (select (select %s a) i)) (< (select (select %s a) i) %s))) :pattern ((select (select %s a) i))))", alloc, t, t, alloc, t))
	case "elemslice":
		g.assert(fmt.Sprintf("(forall ((a Int) (i Int)) (! (=> (< a %s) (and (wf_slice (select (select %s a) i)) (< (s_arr (select (select %s a) i)) %s))) :pattern ((select (select %s a) i))))", alloc, t, t, alloc, t))
	}
}

func (g *FuncGen) mergeGet(h *Heap, name, srt string) string {
	if len(h.preds) == 0 {
		return g.declare(fmt.Sprintf("H%d:%s", h.id, name), srt)
	}
	first := g.heapGet(h.preds[0], name, srt)
	same := true
	terms := []string{first}
	for _, p := range h.preds[1:] {
		t := g.heapGet(p, name, srt)
		terms = append(terms, t)
		if t != first {
			same = false
		}
	}
	if same {
		return first
	}
	t := g.declare(fmt.Sprintf("H%d:%s", h.id, name), srt)
	for i := range h.preds {
		g.assert(fmt.Sprintf("(=> %s (= %s %s))", h.conds[i], t, terms[i]))
	}
	return t
}

// frameAxiom: a map that is havocked (by a call or at a loop head) but is not
// in the function's own modifies set keeps its content on every object that
// existed at function entry. Justified by the frame.store / frame.call
// obligations of this same function.
func (g *FuncGen) frameAxiom(h *Heap, name, srt, t string) {
	if g.modifiesAll || g.ownMod[name] {
		return
	}
	if !strings.HasPrefix(srt, "(Array Int") {
		return
	}
	e := g.heapGet(g.entryHeap, name, srt)
	g.assert(fmt.Sprintf("(forall ((r Int)) (! (=> (< r %s) (= (select %s r) (select %s r))) :pattern ((select %s r))))", g.alloc0, t, e, t))
}

func (g *FuncGen) heapSet(h *Heap, name, term string) *Heap {
	n := g.newHeap(hOverride)
	n.parent = h
	n.name = name
	n.term = term
	return n
}

// heapHavoc returns a heap in which the given maps (nil = all) are unknown.
func (g *FuncGen) heapHavoc(h *Heap, names []string) *Heap {
	n := g.newHeap(hHavoc)
	n.parent = h
	if names != nil {
		n.havoc = map[string]bool{}
		for _, x := range names {
			if x == "*" {
				n.havoc = nil
				break
			}
			n.havoc[x] = true
		}
	}
	if n.havoc != nil {
		n.havoc["$alloc"] = true
	}
	g.noteHavocHeap(n)
	return n
}

// noteHavocHeap: the `global` facts in force describe package-level variables that
// nothing but the package initialiser writes (checked), so they hold in every heap
// version; they are restated for each version a havoc creates.
func (g *FuncGen) noteHavocHeap(n *Heap) {
	g.havocHeaps = append(g.havocHeaps, n)
	for pkg := range g.globalPkgs {
		g.eng.assertGlobals(g, pkg, n)
	}
}

// ---------- heap map naming ----------

type MapRef struct {
	Name string
	Sort string
}

func (g *FuncGen) mr(name, srt string) MapRef {
	g.mapSortCache[name] = srt
	return MapRef{name, srt}
}
func refKind(t types.Type) string {
	switch t.Underlying().(type) {
	case *types.Pointer, *types.Map:
		return "ref"
	case *types.Slice:
		return "slice"
	}
	return ""
}
func (g *FuncGen) fieldMap(structT types.Type, i int) MapRef {
	st := structT.Underlying().(*types.Struct)
	name := "F:" + typeName(structT) + "." + st.Field(i).Name()
	g.mapRefKind[name] = refKind(st.Field(i).Type())
	return g.mr(name, "(Array Int "+g.w.SortOf(st.Field(i).Type())+")")
}
func (g *FuncGen) cellMap(t types.Type) MapRef {
	name := "C:" + typeName(t)
	g.mapRefKind[name] = refKind(t)
	return g.mr(name, "(Array Int "+g.w.SortOf(t)+")")
}
func (g *FuncGen) elemMap(elem types.Type) MapRef {
	name := "E:" + typeName(elem)
	if k := refKind(elem); k != "" {
		g.mapRefKind[name] = "elem" + k
	}
	return g.mr(name, "(Array Int (Array Int "+g.w.SortOf(elem)+"))")
}
func (g *FuncGen) mapDom(m *types.Map, named types.Type) MapRef {
	return g.mr("MD:"+typeName(m), "(Array Int (Array "+g.w.SortOf(m.Key())+" Bool))")
}
func (g *FuncGen) mapVal(m *types.Map, named types.Type) MapRef {
	return g.mr("MV:"+typeName(m), "(Array Int (Array "+g.w.SortOf(m.Key())+" "+g.w.SortOf(m.Elem())+"))")
}
func (g *FuncGen) mapLen(m *types.Map) MapRef {
	return g.mr("ML:"+typeName(m), "(Array Int Int)")
}

// resolveModName turns a contract-level modifies entry ("Total.Sum",
// "tax.Total.Sum", "elem(*RateTotal)", "cell(num.Amount)", "map(cbc.Meta)") into heap map names.
func (g *FuncGen) resolveModNames(entries []string, pkg *types.Package) ([]string, error) {
	var out []string
	for _, e := range entries {
		if e == "*" {
			return []string{"*"}, nil
		}
		switch {
		case strings.HasPrefix(e, "elem(") && strings.HasSuffix(e, ")"):
			t, err := g.eng.resolveType(e[5:len(e)-1], pkg)
			if err != nil {
				return nil, err
			}
			out = append(out, g.elemMap(t).Name)
		case strings.HasPrefix(e, "cell(") && strings.HasSuffix(e, ")"):
			t, err := g.eng.resolveType(e[5:len(e)-1], pkg)
			if err != nil {
				return nil, err
			}
			out = append(out, g.cellMap(t).Name)
		case strings.HasPrefix(e, "map(") && strings.HasSuffix(e, ")"):
			t, err := g.eng.resolveType(e[4:len(e)-1], pkg)
			if err != nil {
				return nil, err
			}
			m, ok := t.Underlying().(*types.Map)
			if !ok {
				return nil, fmt.Errorf("modifies %s: not a map type", e)
			}
			out = append(out, g.mapDom(m, t).Name, g.mapVal(m, t).Name, g.mapLen(m).Name)
		default:
			k := strings.LastIndex(e, ".")
			if k < 0 {
				return nil, fmt.Errorf("modifies entry %q: want Type.field", e)
			}
			t, err := g.eng.resolveType(e[:k], pkg)
			if err != nil {
				return nil, err
			}
			st, ok := t.Underlying().(*types.Struct)
			if !ok {
				return nil, fmt.Errorf("modifies entry %q: %s is not a struct", e, e[:k])
			}
			found := false
			if strings.HasPrefix(e[k+1:], "$") {
				gm, _, err := g.ghostMap(t, e[k+1:])
				if err != nil {
					return nil, err
				}
				out = append(out, gm.Name)
				found = true
			}
			for i := 0; i < st.NumFields(); i++ {
				if st.Field(i).Name() == e[k+1:] {
					out = append(out, g.fieldMap(t, i).Name)
					// a whole-struct field of pointer-to-struct type T is
					// spread over T's field maps; nothing more to add here.
					found = true
				}
			}
			if !found {
				return nil, fmt.Errorf("modifies entry %q: no such field (contract out of date)", e)
			}
		}
	}
	sort.Strings(out)
	return out, nil
}
