package main

// Translation of contract expressions into SMT terms, relative to an
// environment (names, current heap, old heap).

import (
	"fmt"
	"go/types"
	"strings"
)

type Env struct {
	g            *FuncGen
	vars         map[string]Val
	heap, old    *Heap
	pkg          *types.Package
	calleeAlloc0 string // when evaluating a callee's contract at a call site: its entry allocation counter
	depth        int
	entryVars    map[string]Val // parameter entry values: what names denote inside old(...)
	recDefining  string         // name of the recursive spec function whose body is being translated
}

func (e *Env) clone() *Env {
	n := *e
	n.vars = map[string]Val{}
	for k, v := range e.vars {
		n.vars[k] = v
	}
	return &n
}

var tInt = types.Typ[types.Int]
var tBool = types.Typ[types.Bool]
var tReal = types.Typ[types.Float64]
var tStr = types.Typ[types.String]

func (g *FuncGen) evalBool(n *Node, env *Env) (string, error) {
	v, err := g.eval(n, env)
	if err != nil {
		return "", err
	}
	if v.Type == nil || !isBoolType(v.Type) {
		return "", fmt.Errorf("expression %s is not boolean", n)
	}
	return v.Term, nil
}

func (g *FuncGen) entryAllocFor(env *Env) string {
	if env.calleeAlloc0 != "" {
		return env.calleeAlloc0
	}
	return g.alloc0
}

func (g *FuncGen) eval(n *Node, env *Env) (Val, error) {
	switch n.Kind {
	case "int":
		return Val{n.Name, types.Typ[types.UntypedInt]}, nil
	case "real":
		return Val{n.Name, tReal}, nil
	case "str":
		return Val{g.w.StrLit(n.Name), tStr}, nil
	case "true", "false":
		return Val{n.Kind, tBool}, nil
	case "nil":
		return Val{"0", types.Typ[types.UntypedNil]}, nil
	case "ident":
		if v, ok := env.vars[n.Name]; ok {
			return v, nil
		}
		// package-level variable or constant
		if env.pkg != nil {
			if obj := env.pkg.Scope().Lookup(n.Name); obj != nil {
				return g.evalObject(obj, env)
			}
		}
		return Val{}, fmt.Errorf("unknown name %q (contract out of date?)", n.Name)
	case "old":
		e2 := env.clone()
		e2.heap = env.old
		for k, v := range env.entryVars {
			e2.vars[k] = v
		}
		return g.eval(n.Kids[0], e2)
	case "ite":
		c, err := g.evalBool(n.Kids[0], env)
		if err != nil {
			return Val{}, err
		}
		a, err := g.eval(n.Kids[1], env)
		if err != nil {
			return Val{}, err
		}
		b, err := g.eval(n.Kids[2], env)
		if err != nil {
			return Val{}, err
		}
		a, b = g.unify(a, b)
		return Val{fmt.Sprintf("(ite %s %s %s)", c, a.Term, b.Term), a.Type}, nil
	case "unop":
		return g.evalUnop(n, env)
	case "binop":
		return g.evalBinop(n, env)
	case "field":
		return g.evalField(n, env)
	case "index":
		return g.evalIndex(n, env)
	case "slice":
		return g.evalSliceExpr(n, env)
	case "call":
		return g.evalCall(n, env)
	case "forall", "exists":
		e2 := env.clone()
		var binds []string
		var guards []string
		for i, name := range n.BNames {
			t, err := g.eng.resolveType(n.BTypes[i], env.pkg)
			if err != nil {
				return Val{}, err
			}
			// bound variable names are made unique to avoid capture
			g.nameSeq++
			vn := q(fmt.Sprintf("%s!q%d", name, g.nameSeq))
			binds = append(binds, fmt.Sprintf("(%s %s)", vn, g.w.SortOf(t)))
			e2.vars[name] = Val{vn, t}
			_ = guards
		}
		body, err := g.evalBool(n.Kids[0], e2)
		if err != nil {
			return Val{}, err
		}
		return Val{fmt.Sprintf("(%s (%s) %s)", n.Kind, strings.Join(binds, " "), body), tBool}, nil
	}
	return Val{}, fmt.Errorf("cannot evaluate %s", n)
}

func (g *FuncGen) evalObject(obj types.Object, env *Env) (Val, error) {
	switch o := obj.(type) {
	case *types.Const:
		t := o.Type()
		switch {
		case isStringType(t):
			var s string
			fmt.Sscanf(o.Val().ExactString(), "%q", &s)
			return Val{g.w.StrLit(s), t}, nil
		case isIntType(t):
			s := o.Val().ExactString()
			if strings.HasPrefix(s, "-") {
				s = "(- " + s[1:] + ")"
			}
			return Val{s, t}, nil
		case isBoolType(t):
			return Val{o.Val().String(), t}, nil
		}
	case *types.Var:
		// global variable: load from its cell / fields
		ref := g.declare("G:"+shortPath(o.Pkg().Path())+"."+o.Name(), "Int")
		if !g.nonNil[ref] {
			g.nonNil[ref] = true
			g.assert(fmt.Sprintf("(and (> %s 0) (< %s %s))", ref, ref, g.alloc0))
		}
		a := &Addr{ref: ref, typ: o.Type()}
		switch o.Type().Underlying().(type) {
		case *types.Struct:
			a.whole = true
		default:
			a.m = g.cellMap(o.Type())
			a.rootT = o.Type()
		}
		return Val{g.load(env.heap, a), o.Type()}, nil
	}
	return Val{}, fmt.Errorf("cannot use %s in a contract", obj.Name())
}

func isUntyped(t types.Type) bool {
	b, ok := t.(*types.Basic)
	return ok && b.Info()&types.IsUntyped != 0
}

// unify coerces an untyped literal / nil to the type of the other side.
func (g *FuncGen) unify(a, b Val) (Val, Val) {
	fix := func(x, other Val) Val {
		if x.Type == nil || other.Type == nil {
			return x
		}
		if b, ok := x.Type.(*types.Basic); ok {
			switch b.Kind() {
			case types.UntypedNil:
				switch other.Type.Underlying().(type) {
				case *types.Slice:
					return Val{"nil_slice", other.Type}
				case *types.Interface:
					return Val{"nil_iface", other.Type}
				default:
					return Val{"0", other.Type}
				}
			case types.UntypedInt:
				if isFloatType(other.Type) {
					return Val{toRealLit(x.Term), other.Type}
				}
				return Val{x.Term, other.Type}
			}
		}
		if isIntType(x.Type) && isFloatType(other.Type) && !isUntyped(other.Type) {
			return Val{fmt.Sprintf("(to_real %s)", x.Term), other.Type}
		}
		return x
	}
	a2 := fix(a, b)
	b2 := fix(b, a2)
	return a2, b2
}

func toRealLit(s string) string {
	if strings.HasPrefix(s, "(") {
		return "(to_real " + s + ")"
	}
	if strings.Contains(s, ".") {
		return s
	}
	return s + ".0"
}

func (g *FuncGen) evalUnop(n *Node, env *Env) (Val, error) {
	x, err := g.eval(n.Kids[0], env)
	if err != nil {
		return Val{}, err
	}
	switch n.Op {
	case "!":
		return Val{"(not " + x.Term + ")", tBool}, nil
	case "-":
		return Val{"(- " + x.Term + ")", x.Type}, nil
	case "*":
		pt, ok := x.Type.Underlying().(*types.Pointer)
		if !ok {
			return Val{}, fmt.Errorf("dereference of non-pointer %s", n.Kids[0])
		}
		a := &Addr{ref: x.Term, typ: pt.Elem()}
		switch u := pt.Elem().Underlying().(type) {
		case *types.Struct:
			a.whole = true
		case *types.Array:
			a.whole = true
			a.m = g.elemMap(u.Elem())
		default:
			a.m = g.cellMap(pt.Elem())
			a.rootT = pt.Elem()
		}
		return Val{g.load(env.heap, a), pt.Elem()}, nil
	}
	return Val{}, fmt.Errorf("unary %s", n.Op)
}

func (g *FuncGen) evalBinop(n *Node, env *Env) (Val, error) {
	switch n.Op {
	case "&&", "||", "==>", "<==>":
		a, err := g.evalBool(n.Kids[0], env)
		if err != nil {
			return Val{}, err
		}
		b, err := g.evalBool(n.Kids[1], env)
		if err != nil {
			return Val{}, err
		}
		op := map[string]string{"&&": "and", "||": "or", "==>": "=>", "<==>": "="}[n.Op]
		return Val{fmt.Sprintf("(%s %s %s)", op, a, b), tBool}, nil
	}
	a, err := g.eval(n.Kids[0], env)
	if err != nil {
		return Val{}, err
	}
	b, err := g.eval(n.Kids[1], env)
	if err != nil {
		return Val{}, err
	}
	a, b = g.unify(a, b)
	switch n.Op {
	case "==", "!=":
		if a.Type != nil && b.Type != nil && g.w.SortOf(a.Type) != g.w.SortOf(b.Type) && !isUntyped(a.Type) && !isUntyped(b.Type) {
			return Val{}, fmt.Errorf("comparison of different sorts in %s (%s vs %s)", n, a.Type, b.Type)
		}
		t := fmt.Sprintf("(= %s %s)", a.Term, b.Term)
		if n.Op == "!=" {
			t = "(not " + t + ")"
		}
		return Val{t, tBool}, nil
	case "<", "<=", ">", ">=":
		if a.Type != nil && isStringType(a.Type) {
			return Val{g.strCompare(n.Op, a.Term, b.Term), tBool}, nil
		}
		return Val{fmt.Sprintf("(%s %s %s)", n.Op, a.Term, b.Term), tBool}, nil
	case "+":
		if a.Type != nil && isStringType(a.Type) {
			return Val{g.strConcat(a.Term, b.Term), a.Type}, nil
		}
		return Val{fmt.Sprintf("(+ %s %s)", a.Term, b.Term), arithType(a, b)}, nil
	case "-", "*":
		return Val{fmt.Sprintf("(%s %s %s)", n.Op, a.Term, b.Term), arithType(a, b)}, nil
	case "/":
		if isFloatType(arithType(a, b)) {
			return Val{fmt.Sprintf("(/ %s %s)", a.Term, b.Term), tReal}, nil
		}
		return Val{fmt.Sprintf("(div %s %s)", a.Term, b.Term), arithType(a, b)}, nil
	case "%":
		return Val{fmt.Sprintf("(mod %s %s)", a.Term, b.Term), arithType(a, b)}, nil
	}
	return Val{}, fmt.Errorf("binary %s", n.Op)
}

func arithType(a, b Val) types.Type {
	if a.Type != nil && isFloatType(a.Type) {
		return tReal
	}
	if b.Type != nil && isFloatType(b.Type) {
		return tReal
	}
	// contract arithmetic is mathematical
	return tInt
}

func fieldIndex(st *types.Struct, name string) int {
	for i := 0; i < st.NumFields(); i++ {
		if st.Field(i).Name() == name {
			return i
		}
	}
	return -1
}

func (g *FuncGen) evalField(n *Node, env *Env) (Val, error) {
	// qualified identifier pkg.Name (constant / variable of another package)
	if n.Kids[0].Kind == "ident" {
		if _, isVar := env.vars[n.Kids[0].Name]; !isVar {
			if p := g.eng.findPackage(n.Kids[0].Name, env.pkg); p != nil {
				if obj := p.Scope().Lookup(n.Name); obj != nil {
					return g.evalObject(obj, env)
				}
			}
		}
	}
	x, err := g.eval(n.Kids[0], env)
	if err != nil {
		return Val{}, err
	}
	if x.Type == nil {
		return Val{}, fmt.Errorf("field %s of untyped value", n.Name)
	}
	switch u := x.Type.Underlying().(type) {
	case *types.Pointer:
		st, ok := u.Elem().Underlying().(*types.Struct)
		if !ok {
			return Val{}, fmt.Errorf("%s: field of pointer to non-struct", n)
		}
		if strings.HasPrefix(n.Name, "$") {
			gm, gt, err := g.ghostMap(u.Elem(), n.Name)
			if err != nil {
				return Val{}, err
			}
			return Val{fmt.Sprintf("(select %s %s)", g.heapGet(env.heap, gm.Name, gm.Sort), x.Term), gt}, nil
		}
		i := fieldIndex(st, n.Name)
		if i < 0 {
			return Val{}, fmt.Errorf("%s: type %s has no field %s (contract out of date)", n, u.Elem(), n.Name)
		}
		fm := g.fieldMap(u.Elem(), i)
		return Val{fmt.Sprintf("(select %s %s)", g.heapGet(env.heap, fm.Name, fm.Sort), x.Term), st.Field(i).Type()}, nil
	case *types.Struct:
		i := fieldIndex(u, n.Name)
		if i < 0 {
			return Val{}, fmt.Errorf("%s: type %s has no field %s (contract out of date)", n, x.Type, n.Name)
		}
		return Val{g.w.selApply(g.w.fieldSel(x.Type, i), g.w.ctor(x.Type), i, x.Term), u.Field(i).Type()}, nil
	case *types.Slice:
		switch n.Name {
		case "arr":
			return Val{fmt.Sprintf("(s_arr %s)", x.Term), tInt}, nil
		case "off":
			return Val{fmt.Sprintf("(s_off %s)", x.Term), tInt}, nil
		}
	case *types.Interface:
		switch n.Name {
		case "typ":
			return Val{fmt.Sprintf("(i_typ %s)", x.Term), tInt}, nil
		case "val":
			return Val{fmt.Sprintf("(i_val %s)", x.Term), tInt}, nil
		}
	}
	return Val{}, fmt.Errorf("%s: cannot select field %s of %s", n, n.Name, x.Type)
}

func (g *FuncGen) evalIndex(n *Node, env *Env) (Val, error) {
	x, err := g.eval(n.Kids[0], env)
	if err != nil {
		return Val{}, err
	}
	i, err := g.eval(n.Kids[1], env)
	if err != nil {
		return Val{}, err
	}
	if x.Type == nil {
		// ghost set (visited)
		return Val{fmt.Sprintf("(select %s %s)", x.Term, i.Term), tBool}, nil
	}
	switch u := x.Type.Underlying().(type) {
	case *types.Slice:
		em := g.elemMap(u.Elem())
		return Val{fmt.Sprintf("(select (select %s (s_arr %s)) (sidx %s %s))", g.heapGet(env.heap, em.Name, em.Sort), x.Term, x.Term, i.Term), u.Elem()}, nil
	case *types.Array:
		return Val{fmt.Sprintf("(select %s %s)", x.Term, i.Term), u.Elem()}, nil
	case *types.Map:
		mv := g.mapVal(u, nil)
		return Val{fmt.Sprintf("(select (select %s %s) %s)", g.heapGet(env.heap, mv.Name, mv.Sort), x.Term, i.Term), u.Elem()}, nil
	case *types.Basic:
		if isStringType(x.Type) {
			return Val{g.strByte(x.Term, i.Term), tInt}, nil
		}
	}
	return Val{}, fmt.Errorf("%s: cannot index %s", n, x.Type)
}

func (g *FuncGen) evalSliceExpr(n *Node, env *Env) (Val, error) {
	x, err := g.eval(n.Kids[0], env)
	if err != nil {
		return Val{}, err
	}
	lo := "0"
	if n.Kids[1] != nil {
		v, err := g.eval(n.Kids[1], env)
		if err != nil {
			return Val{}, err
		}
		lo = v.Term
	}
	if isStringType(x.Type) {
		hi := fmt.Sprintf("(strlen %s)", x.Term)
		if n.Kids[2] != nil {
			v, err := g.eval(n.Kids[2], env)
			if err != nil {
				return Val{}, err
			}
			hi = v.Term
		}
		return Val{g.strSubstr(x.Term, lo, hi), x.Type}, nil
	}
	return Val{}, fmt.Errorf("%s: slicing only of strings in contracts", n)
}

func (g *FuncGen) evalCall(n *Node, env *Env) (Val, error) {
	args := func() ([]Val, error) {
		var out []Val
		for _, k := range n.Kids {
			v, err := g.eval(k, env)
			if err != nil {
				return nil, err
			}
			out = append(out, v)
		}
		return out, nil
	}
	switch n.Name {
	case "len":
		a, err := args()
		if err != nil {
			return Val{}, err
		}
		x := a[0]
		switch u := x.Type.Underlying().(type) {
		case *types.Slice:
			return Val{fmt.Sprintf("(s_len %s)", x.Term), tInt}, nil
		case *types.Basic:
			return Val{fmt.Sprintf("(strlen %s)", x.Term), tInt}, nil
		case *types.Array:
			return Val{fmt.Sprintf("%d", u.Len()), tInt}, nil
		case *types.Map:
			ml := g.mapLen(u)
			return Val{fmt.Sprintf("(ite (= %s 0) 0 (select %s %s))", x.Term, g.heapGet(env.heap, ml.Name, ml.Sort), x.Term), tInt}, nil
		}
		return Val{}, fmt.Errorf("len of %s", x.Type)
	case "cap":
		a, err := args()
		if err != nil {
			return Val{}, err
		}
		return Val{fmt.Sprintf("(s_cap %s)", a[0].Term), tInt}, nil
	case "has": // has(m, k): key present in map
		a, err := args()
		if err != nil {
			return Val{}, err
		}
		mt, ok := a[0].Type.Underlying().(*types.Map)
		if !ok {
			return Val{}, fmt.Errorf("has: not a map")
		}
		md := g.mapDom(mt, nil)
		return Val{fmt.Sprintf("(and (not (= %s 0)) (select (select %s %s) %s))", a[0].Term, g.heapGet(env.heap, md.Name, md.Sort), a[0].Term, a[1].Term), tBool}, nil
	case "fresh": // allocated during the call
		a, err := args()
		if err != nil {
			return Val{}, err
		}
		t := a[0].Term
		if _, ok := a[0].Type.Underlying().(*types.Slice); ok {
			t = fmt.Sprintf("(s_arr %s)", t)
		}
		return Val{fmt.Sprintf("(>= %s %s)", t, g.entryAllocFor(env)), tBool}, nil
	case "live": // allocated by now: below the allocation counter of the heap the expression is evaluated in
		a, err := args()
		if err != nil {
			return Val{}, err
		}
		t := a[0].Term
		if _, ok := a[0].Type.Underlying().(*types.Slice); ok {
			t = fmt.Sprintf("(s_arr %s)", t)
		}
		return Val{fmt.Sprintf("(< %s %s)", t, g.allocTerm(env.heap)), tBool}, nil
	case "allocated": // existed at entry
		a, err := args()
		if err != nil {
			return Val{}, err
		}
		t := a[0].Term
		if _, ok := a[0].Type.Underlying().(*types.Slice); ok {
			t = fmt.Sprintf("(s_arr %s)", t)
		}
		return Val{fmt.Sprintf("(< %s %s)", t, g.entryAllocFor(env)), tBool}, nil
	case "arr": // arr(s): the backing array of slice s (a reference; 0 for a nil slice)
		a, err := args()
		if err != nil {
			return Val{}, err
		}
		if len(a) != 1 {
			return Val{}, fmt.Errorf("arr takes one argument")
		}
		if _, ok := a[0].Type.Underlying().(*types.Slice); !ok {
			return Val{}, fmt.Errorf("arr needs a slice")
		}
		return Val{fmt.Sprintf("(s_arr %s)", a[0].Term), tInt}, nil
	case "pow2": // 2^n for 0 <= n <= 62 (0 elsewhere)
		a, err := args()
		if err != nil {
			return Val{}, err
		}
		if len(a) != 1 {
			return Val{}, fmt.Errorf("pow2 takes one argument")
		}
		return Val{fmt.Sprintf("(pow2 %s)", a[0].Term), tInt}, nil
	case "abs":
		a, err := args()
		if err != nil {
			return Val{}, err
		}
		if isFloatType(a[0].Type) {
			return Val{fmt.Sprintf("(rabs %s)", a[0].Term), tReal}, nil
		}
		return Val{fmt.Sprintf("(iabs %s)", a[0].Term), tInt}, nil
	case "min", "max":
		a, err := args()
		if err != nil {
			return Val{}, err
		}
		return Val{fmt.Sprintf("(i%s %s %s)", n.Name, a[0].Term, a[1].Term), tInt}, nil
	case "real":
		a, err := args()
		if err != nil {
			return Val{}, err
		}
		if isFloatType(a[0].Type) {
			return a[0], nil
		}
		return Val{toRealLit(a[0].Term), tReal}, nil
	case "floor":
		a, err := args()
		if err != nil {
			return Val{}, err
		}
		return Val{fmt.Sprintf("(to_int %s)", a[0].Term), tInt}, nil
	case "isint":
		a, err := args()
		if err != nil {
			return Val{}, err
		}
		return Val{fmt.Sprintf("(is_int %s)", a[0].Term), tBool}, nil
	case "unchanged": // unchanged(Type.field): the whole heap map equals its old version
		if len(n.Kids) != 1 {
			return Val{}, fmt.Errorf("unchanged takes one argument")
		}
		names, err := g.resolveModNames([]string{strings.ReplaceAll(n.Kids[0].String(), " ", "")}, env.pkg)
		if err != nil {
			return Val{}, err
		}
		var parts []string
		for _, m := range names {
			srt := g.eng.sortOfMap(g, m)
			parts = append(parts, fmt.Sprintf("(= %s %s)", g.heapGet(env.heap, m, srt), g.heapGet(env.old, m, srt)))
		}
		if len(parts) == 1 {
			return Val{parts[0], tBool}, nil
		}
		return Val{"(and " + strings.Join(parts, " ") + ")", tBool}, nil
	case "s_byte": // s_byte(s, i): the byte at index i of s
		a, err := args()
		if err != nil {
			return Val{}, err
		}
		if len(a) != 2 {
			return Val{}, fmt.Errorf("s_byte takes 2 arguments")
		}
		return Val{g.strByte(a[0].Term, a[1].Term), tInt}, nil
	case "s_concat", "s_contains", "s_hasprefix", "s_hassuffix", "s_indexof", "s_toint", "s_fromint", "s_isdigits", "s_substr", "s_inre", "s_replaceall":
		if !g.w.useStrings && (n.Name == "s_concat" || n.Name == "s_substr" || n.Name == "s_isdigits") {
			// byte-level model (default mode): strings are a length and a byte function
			a, err := args()
			if err != nil {
				return Val{}, err
			}
			for _, x := range a {
				if (n.Name == "s_concat" || n.Name == "s_substr") && (strings.Contains(x.Term, "|sp:") || strings.Contains(x.Term, "|rp:")) {
					return Val{}, fmt.Errorf("%s inside a spec function body needs the string theory (byte-level model: use a contract-level let)", n.Name)
				}
			}
			switch {
			case n.Name == "s_concat" && len(a) == 2:
				return Val{g.strConcat(a[0].Term, a[1].Term), tStr}, nil
			case n.Name == "s_substr" && len(a) == 3:
				return Val{g.strSubstr(a[0].Term, a[1].Term, a[2].Term), tStr}, nil
			case n.Name == "s_isdigits" && len(a) == 1:
				bt := g.strByte(a[0].Term, "i")
				return Val{fmt.Sprintf("(and (>= (strlen %s) 1) (forall ((i Int)) (! (=> (and (<= 0 i) (< i (strlen %s))) (and (<= 48 %s) (<= %s 57))) :pattern (%s))))", a[0].Term, a[0].Term, bt, bt, bt), tBool}, nil
			}
			return Val{}, fmt.Errorf("%s: wrong number of arguments", n.Name)
		}
		if !g.w.useStrings {
			return Val{}, fmt.Errorf("%s needs the string theory (add `strings` to the contract)", n.Name)
		}
		if n.Name == "s_inre" {
			// inre(s, "<SMT-LIB regular expression>")
			if len(n.Kids) != 2 || n.Kids[1].Kind != "str" {
				return Val{}, fmt.Errorf("inre(s, \"<smt regex>\")")
			}
			x, err := g.eval(n.Kids[0], env)
			if err != nil {
				return Val{}, err
			}
			return Val{fmt.Sprintf("(str.in_re %s %s)", x.Term, n.Kids[1].Name), tBool}, nil
		}
		a, err := args()
		if err != nil {
			return Val{}, err
		}
		need := map[string]int{"s_concat": 2, "s_contains": 2, "s_hasprefix": 2, "s_hassuffix": 2, "s_indexof": 2, "s_toint": 1, "s_fromint": 1, "s_isdigits": 1, "s_substr": 3, "s_replaceall": 3}[n.Name]
		if len(a) != need {
			return Val{}, fmt.Errorf("%s takes %d arguments", n.Name, need)
		}
		switch n.Name {
		case "s_concat":
			return Val{fmt.Sprintf("(str.++ %s %s)", a[0].Term, a[1].Term), tStr}, nil
		case "s_contains":
			return Val{fmt.Sprintf("(str.contains %s %s)", a[0].Term, a[1].Term), tBool}, nil
		case "s_hasprefix":
			return Val{fmt.Sprintf("(str.prefixof %s %s)", a[1].Term, a[0].Term), tBool}, nil
		case "s_hassuffix":
			return Val{fmt.Sprintf("(str.suffixof %s %s)", a[1].Term, a[0].Term), tBool}, nil
		case "s_indexof":
			return Val{fmt.Sprintf("(str.indexof %s %s 0)", a[0].Term, a[1].Term), tInt}, nil
		case "s_toint":
			return Val{fmt.Sprintf("(str.to_int %s)", a[0].Term), tInt}, nil
		case "s_fromint":
			return Val{fmt.Sprintf("(str.from_int %s)", a[0].Term), tStr}, nil
		case "s_isdigits":
			return Val{fmt.Sprintf("(str.in_re %s (re.+ (re.range \"0\" \"9\")))", a[0].Term), tBool}, nil
		case "s_substr": // s_substr(s, lo, hi) = s[lo:hi]
			return Val{fmt.Sprintf("(str.substr %s %s (- %s %s))", a[0].Term, a[1].Term, a[2].Term, a[1].Term), tStr}, nil
		case "s_replaceall":
			return Val{fmt.Sprintf("(str.replace_all %s %s %s)", a[0].Term, a[1].Term, a[2].Term), tStr}, nil
		}
	case "unboxed": // unboxed(ifaceValue, Type): the payload of an interface value as a T
		if len(n.Kids) != 2 {
			return Val{}, fmt.Errorf("unboxed takes two arguments")
		}
		x, err := g.eval(n.Kids[0], env)
		if err != nil {
			return Val{}, err
		}
		t, err := g.eng.resolveType(strings.ReplaceAll(n.Kids[1].String(), " ", ""), env.pkg)
		if err != nil {
			return Val{}, err
		}
		return Val{g.w.Unbox(t, fmt.Sprintf("(i_val %s)", x.Term)), t}, nil
	case "typeis": // typeis(ifaceValue, Type)
		if len(n.Kids) != 2 {
			return Val{}, fmt.Errorf("typeis takes two arguments")
		}
		x, err := g.eval(n.Kids[0], env)
		if err != nil {
			return Val{}, err
		}
		t, err := g.eng.resolveType(strings.ReplaceAll(n.Kids[1].String(), " ", ""), env.pkg)
		if err != nil {
			return Val{}, err
		}
		return Val{fmt.Sprintf("(= (i_typ %s) %d)", x.Term, g.w.TypeID(t)), tBool}, nil
	}
	// spec function (a package qualifier is allowed and ignored: spec names are global)
	specName := n.Name
	if k := strings.LastIndex(specName, "."); k >= 0 {
		if _, ok := g.eng.cs.Specs[specName[k+1:]]; ok {
			specName = specName[k+1:]
		}
	}
	if sf, ok := g.eng.cs.Specs[specName]; ok {
		a, err := args()
		if err != nil {
			return Val{}, err
		}
		return g.applySpec(sf, a, env)
	}
	// struct constructor: TypeName(f1, ..., fn)
	if t, err := g.eng.resolveType(n.Name, env.pkg); err == nil {
		if st, ok := t.Underlying().(*types.Struct); ok {
			a, err := args()
			if err != nil {
				return Val{}, err
			}
			if len(a) != st.NumFields() {
				return Val{}, fmt.Errorf("constructor %s: want %d fields", n.Name, st.NumFields())
			}
			parts := []string{g.w.ctor(t)}
			for i := range a {
				av := a[i]
				if isUntyped(av.Type) {
					av, _ = g.unify(av, Val{"", st.Field(i).Type()})
				}
				parts = append(parts, av.Term)
			}
			if len(a) == 0 {
				return Val{g.w.ctor(t), t}, nil
			}
			return Val{"(" + strings.Join(parts, " ") + ")", t}, nil
		}
		// conversion T(x) for basic types: identity on sorts
		a, err := args()
		if err == nil && len(a) == 1 {
			if isFloatType(t) && !isFloatType(a[0].Type) {
				return Val{toRealLit(a[0].Term), t}, nil
			}
			return Val{a[0].Term, t}, nil
		}
	}
	// pure Go function under contract, used as an uninterpreted function
	// constrained by its contract (for lemmas over contracts)
	if c := g.eng.findContractByShortName(n.Name, env.pkg); c != nil {
		a, err := args()
		if err != nil {
			return Val{}, err
		}
		return g.applyPureContract(c, a, env)
	}
	return Val{}, fmt.Errorf("unknown function %q in contract", n.Name)
}

// applySpec: pure spec functions are SMT define-funs (emitted once per
// query prelude); heap predicates are expanded in place.
func (g *FuncGen) applySpec(sf *SpecFunc, args []Val, env *Env) (Val, error) {
	if len(args) != len(sf.Params) {
		return Val{}, fmt.Errorf("spec %s: want %d arguments, got %d", sf.Name, len(sf.Params), len(args))
	}
	spkg := g.eng.typesPkg(sf.PkgPath)
	if spkg == nil {
		spkg = env.pkg
	}
	rt, err := g.eng.resolveType(sf.RType, spkg)
	if err != nil {
		return Val{}, err
	}
	if sf.Rec {
		return g.applyRec(sf, args, env, spkg, rt)
	}
	if sf.Macro {
		if env.depth > 40 {
			return Val{}, fmt.Errorf("predicate %s: expansion too deep (recursive?)", sf.Name)
		}
		e2 := &Env{g: g, vars: map[string]Val{}, heap: env.heap, old: env.old, pkg: spkg, calleeAlloc0: env.calleeAlloc0, depth: env.depth + 1}
		for i, p := range sf.Params {
			pt, err := g.eng.resolveType(sf.PTypes[i], spkg)
			if err != nil {
				return Val{}, err
			}
			a := args[i]
			if isUntyped(a.Type) {
				a, _ = g.unify(a, Val{"", pt})
			}
			e2.vars[p] = Val{a.Term, pt}
		}
		v, err := g.eval(sf.Body, e2)
		if err != nil {
			return Val{}, fmt.Errorf("in predicate %s: %v", sf.Name, err)
		}
		v2, _ := g.unify(v, Val{"", rt})
		return Val{v2.Term, rt}, nil
	}
	if err := g.ensureSpecDefined(sf); err != nil {
		return Val{}, err
	}
	parts := []string{q("spec:" + sf.Name)}
	for i := range args {
		a := args[i]
		pt, _ := g.eng.resolveType(sf.PTypes[i], spkg)
		if isUntyped(a.Type) && pt != nil {
			a, _ = g.unify(a, Val{"", pt})
		}
		parts = append(parts, a.Term)
	}
	if len(args) == 0 {
		return Val{q("spec:" + sf.Name), rt}, nil
	}
	return Val{"(" + strings.Join(parts, " ") + ")", rt}, nil
}

func (g *FuncGen) ensureSpecDefined(sf *SpecFunc) error {
	key := "spec:" + sf.Name
	if g.declared[q(key)] {
		return nil
	}
	g.declared[q(key)] = true
	spkg := g.eng.typesPkg(sf.PkgPath)
	if spkg == nil {
		spkg = g.pkg
	}
	e2 := &Env{g: g, vars: map[string]Val{}, heap: g.entryHeap, old: g.entryHeap, pkg: spkg}
	var ps []string
	for i, p := range sf.Params {
		pt, err := g.eng.resolveType(sf.PTypes[i], spkg)
		if err != nil {
			return fmt.Errorf("spec %s: %v", sf.Name, err)
		}
		pn := q("sp:" + p)
		ps = append(ps, fmt.Sprintf("(%s %s)", pn, g.w.SortOf(pt)))
		e2.vars[p] = Val{pn, pt}
	}
	rt, err := g.eng.resolveType(sf.RType, spkg)
	if err != nil {
		return fmt.Errorf("spec %s: %v", sf.Name, err)
	}
	isOpaque := false
	if g.rootC != nil {
		for _, o := range g.rootC.Opaque {
			if o == sf.Name {
				isOpaque = true
			}
		}
	}
	if sf.Raw == "uninterpreted" || isOpaque {
		var ss []string
		for i := range sf.Params {
			pt, _ := g.eng.resolveType(sf.PTypes[i], spkg)
			ss = append(ss, g.w.SortOf(pt))
		}
		g.specDefs = append(g.specDefs, fmt.Sprintf("(declare-fun %s (%s) %s)", q(key), strings.Join(ss, " "), g.w.SortOf(rt)))
		return nil
	}
	var body string
	if sf.Raw != "" {
		body = sf.Raw
		for _, p := range sf.Params {
			body = strings.ReplaceAll(body, "$"+p, q("sp:"+p))
		}
	} else {
		v, err := g.eval(sf.Body, e2)
		if err != nil {
			delete(g.declared, q(key)) // not defined: a later use must fail the same way
			return fmt.Errorf("spec %s: %v", sf.Name, err)
		}
		v2, _ := g.unify(v, Val{"", rt})
		body = v2.Term
	}
	// define-funs must follow the datatypes: kept in a separate ordered list
	g.specDefs = append(g.specDefs, fmt.Sprintf("(define-fun %s (%s) %s %s)", q(key), strings.Join(ps, " "), g.w.SortOf(rt), body))
	return nil
}

// applyPureContract: F(args) as an uninterpreted function whose only known
// property is the contract of F, instantiated at these arguments.
func (g *FuncGen) applyPureContract(c *Contract, args []Val, env *Env) (Val, error) {
	fn := g.eng.ssaFuncFor(c)
	if fn == nil {
		return Val{}, fmt.Errorf("no function for contract %s", c.Key)
	}
	sig := fn.Signature
	if sig.Results().Len() != 1 {
		return Val{}, fmt.Errorf("%s: only single-result functions can be used in contracts", c.Key)
	}
	var cnames []string
	if c.Recv != "" {
		cnames = append(cnames, c.Recv)
	}
	cnames = append(cnames, c.Params...)
	if len(cnames) != len(args) {
		return Val{}, fmt.Errorf("%s: want %d arguments (receiver first)", c.Key, len(cnames))
	}
	var ptypes []types.Type
	for _, p := range fn.Params {
		ptypes = append(ptypes, p.Type())
	}
	rt := sig.Results().At(0).Type()
	uf := q("pure:" + shortKey(c.Key))
	if !g.declared[uf] {
		g.declared[uf] = true
		var ss []string
		for _, t := range ptypes {
			ss = append(ss, g.w.SortOf(t))
		}
		g.decls = append(g.decls, fmt.Sprintf("(declare-fun %s (%s) %s)", uf, strings.Join(ss, " "), g.w.SortOf(rt)))
	}
	parts := []string{uf}
	cenv := &Env{g: g, vars: map[string]Val{}, heap: env.heap, old: env.heap, pkg: g.eng.pkgOfContract(c), calleeAlloc0: g.allocTerm(env.heap)}
	for i := range args {
		a := args[i]
		if isUntyped(a.Type) {
			a, _ = g.unify(a, Val{"", ptypes[i]})
		}
		parts = append(parts, a.Term)
		cenv.vars[cnames[i]] = Val{a.Term, ptypes[i]}
	}
	app := "(" + strings.Join(parts, " ") + ")"
	if len(c.Modifies) > 0 {
		return Val{}, fmt.Errorf("%s modifies the heap: cannot be used as a function in contracts", c.Key)
	}
	key := "inst:" + app
	if !g.pureDecl[key] {
		g.pureDecl[key] = true
		g.usedContracts[c.Key] = true
		if len(c.Results) > 0 {
			cenv.vars[c.Results[0]] = Val{app, rt}
		}
		var pres []string
		for _, cl := range append(append([]Clause{}, c.Requires...), c.Domain...) {
			t, err := g.evalBool(cl.Expr, cenv)
			if err != nil {
				return Val{}, err
			}
			pres = append(pres, t)
		}
		pre := "true"
		if len(pres) > 0 {
			pre = "(and " + strings.Join(pres, " ") + ")"
		}
		for _, cl := range c.Ensures {
			t, err := g.evalBool(cl.Expr, cenv)
			if err != nil {
				return Val{}, err
			}
			g.assert(fmt.Sprintf("(=> %s %s)", pre, t))
		}
		for _, f := range g.typeFacts(app, rt, "") {
			g.assert(f)
		}
		g.lemmaPres = append(g.lemmaPres, pre)
	}
	return Val{app, rt}, nil
}


// ghostMap: heap map of a declared ghost field of struct type t.
func (g *FuncGen) ghostMap(t types.Type, name string) (MapRef, types.Type, error) {
	for _, gf := range g.eng.cs.Ghosts {
		if gf.Name != name {
			continue
		}
		st, err := g.eng.resolveType(gf.TypeStr, g.eng.typesPkg(gf.PkgPath))
		if err != nil {
			return MapRef{}, nil, err
		}
		if !types.Identical(st, t) {
			continue
		}
		ft, err := g.eng.resolveType(gf.Type, g.eng.typesPkg(gf.PkgPath))
		if err != nil {
			return MapRef{}, nil, err
		}
		return g.mr("G:"+typeName(t)+"."+name, "(Array Int "+g.w.SortOf(ft)+")"), ft, nil
	}
	return MapRef{}, nil, fmt.Errorf("no ghost field %s declared for %s", name, typeName(t))
}


// applyRec: recursive heap-reading spec function. Defined once per query
// context as define-fun-rec whose extra parameters are the heap maps its body
// reads; applied to the heap of the use site.
func (g *FuncGen) applyRec(sf *SpecFunc, args []Val, env *Env, spkg *types.Package, rt types.Type) (Val, error) {
	key := q("rec:" + sf.Name)
	if env.recDefining == sf.Name {
		// recursive occurrence inside the body: same heap parameters
		parts := []string{key}
		for i := range args {
			a := args[i]
			pt, _ := g.eng.resolveType(sf.PTypes[i], spkg)
			if isUntyped(a.Type) && pt != nil {
				a, _ = g.unify(a, Val{"", pt})
			}
			parts = append(parts, a.Term)
		}
		return Val{"(" + strings.Join(parts, " ") + " @@MAPS:" + sf.Name + "@@)", rt}, nil
	}
	maps, ok := g.recMaps[sf.Name]
	if !ok {
		ph := g.newHeap(hParam)
		e2 := &Env{g: g, vars: map[string]Val{}, heap: ph, old: ph, pkg: spkg, recDefining: sf.Name}
		var ps []string
		for i, p := range sf.Params {
			pt, err := g.eng.resolveType(sf.PTypes[i], spkg)
			if err != nil {
				return Val{}, err
			}
			pn := q("rp:" + p)
			ps = append(ps, fmt.Sprintf("(%s %s)", pn, g.w.SortOf(pt)))
			e2.vars[p] = Val{pn, pt}
		}
		v, err := g.eval(sf.Body, e2)
		if err != nil {
			return Val{}, fmt.Errorf("rec %s: %v", sf.Name, err)
		}
		v2, _ := g.unify(v, Val{"", rt})
		maps = ph.paramOrder
		var mp, mnames []string
		for _, m := range maps {
			mp = append(mp, fmt.Sprintf("(%s %s)", q("hp:"+m[0]), m[1]))
			mnames = append(mnames, q("hp:"+m[0]))
		}
		body := strings.ReplaceAll(v2.Term, " @@MAPS:"+sf.Name+"@@", " "+strings.Join(mnames, " "))
		if len(mnames) == 0 {
			body = strings.ReplaceAll(v2.Term, " @@MAPS:"+sf.Name+"@@", "")
		}
		g.specDefs = append(g.specDefs, fmt.Sprintf("(define-fun-rec %s (%s) %s %s)", key, strings.Join(append(ps, mp...), " "), g.w.SortOf(rt), body))
		if g.recMaps == nil {
			g.recMaps = map[string][][2]string{}
		}
		g.recMaps[sf.Name] = maps
	}
	parts := []string{key}
	for i := range args {
		a := args[i]
		pt, _ := g.eng.resolveType(sf.PTypes[i], spkg)
		if isUntyped(a.Type) && pt != nil {
			a, _ = g.unify(a, Val{"", pt})
		}
		parts = append(parts, a.Term)
	}
	for _, m := range maps {
		parts = append(parts, g.heapGet(env.heap, m[0], m[1]))
	}
	return Val{"(" + strings.Join(parts, " ") + ")", rt}, nil
}
