#!/bin/bash
# Like runseeds.sh, but never touches /repo's working tree: every seed is applied in a scratch
# git worktree under /tmp (removed afterwards) and checked with `goblvc check -repo <worktree>`.
# Usage: tools/runseeds_wt.sh [jobs]   (default 4 in parallel). Rewrites seeded/RESULTS.tsv.
cd /verif
jobs=${1:-4}
claimed=$(python3 -c "import json;print(' '.join(c['property_id'] for c in json.load(open('MANIFEST.json'))['checks']))")
tmp=$(mktemp -d /tmp/seedrun.XXXX)
one() {
  sd=$1; prop=${sd%-*}; out=$2
  if ! echo " $claimed " | grep -q " $prop "; then echo -e "$sd\t-\t-\t-\tproperty not claimed" > $out/$sd.row; return; fi
  wt=/tmp/ws_$sd
  git -C /repo worktree add -f --detach $wt HEAD >/dev/null 2>&1
  if git -C $wt apply /verif/seeded/$sd/patch.diff >/dev/null 2>&1; then
    log=$(timeout 1200 /verif/bin/goblvc check $prop -q -noevidence -repo $wt 2>&1); rc=$?
    n=$(echo "$log" | grep -c "^VIOLATION")
    first=$(echo "$log" | grep -A1 "^VIOLATION" | head -2 | tail -1 | cut -c1-160)
    kind=$(echo "$log" | grep "^VIOLATION" | head -1 | grep -q "no-failing-input-found" && echo "no-input" || echo "replayed")
    [ $n -eq 0 ] && kind="-"
    echo -e "$sd\tyes\t$rc\t$n\t$kind\t$first" > $out/$sd.row
  else
    echo -e "$sd\tno\t-\t-\t-\tpatch no longer applies (overlaps a fix)" > $out/$sd.row
  fi
  git -C /repo worktree remove --force $wt >/dev/null 2>&1
}
export -f one; export claimed
ls -d seeded/C*-* | sort -V | xargs -n1 basename | xargs -P $jobs -I{} bash -c "one {} $tmp"
git -C /repo worktree prune
for f in $(ls $tmp/*.row | sort -V); do cat $f; done > seeded/RESULTS.tsv
rm -rf $tmp
cut -f1-5 seeded/RESULTS.tsv
