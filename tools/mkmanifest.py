#!/usr/bin/env python3
"""Regenerates /verif/MANIFEST.json from contracts/properties.json and tools/claims.json."""
import json, os
root = os.path.dirname(os.path.dirname(os.path.abspath(__file__)))
props = json.load(open(os.path.join(root, "contracts", "properties.json")))
claims = json.load(open(os.path.join(root, "tools", "claims.json")))
all_ids = [json.loads(l)["id"] for l in open(os.path.join(root, "properties.jsonl"))]
checks = []
claimed = set()
for p in props:
    c = claims["claimed"].get(p["id"])
    if not c:
        continue
    claimed.add(p["id"])
    checks.append({
        "property_id": p["id"],
        "quick_cmd": "./bin/goblvc check %s --tier quick" % p["id"],
        "thorough_cmd": "./bin/goblvc check %s --tier thorough" % p["id"],
        "evidence_file": "/verif/evidence/%s.json" % p["id"],
        "replay_cmd_template": "cat {path}",
        "engine": "goblvc",
        "level_claimed": {"category": c.get("category", "proof"), "text": c["text"], "design_ref": c.get("design_ref", "DESIGN.md section 4 " + p["id"])},
        "level_note": c["note"],
        "technique": c.get("technique", "contract-based deductive verification: VCs generated from go/ssa of /repo against //@ contracts, discharged by z3/cvc5"),
    })
na = []
for i in all_ids:
    if i not in claimed:
        na.append({"property_id": i, "reason": claims["not_applicable"].get(i, "contract set for this property is not built yet (DESIGN.md section 7); not claimed")})
m = {
    "version": 1,
    "setup_cmd": "cd /verif/engine && GOFLAGS=-mod=mod GOPROXY=off GOSUMDB=off GOTOOLCHAIN=local go build -o /verif/bin/goblvc .",
    "hooks": {
        "guard": "verif",
        "enable": "go build -tags verif (the guarded files are comment-only contract files <pkg>/contracts_verif.go; goblvc loads /repo with -tags=verif)",
        "baseline_off_cmd": "cd /repo && GOFLAGS=-mod=mod GOPROXY=off GOSUMDB=off GOTOOLCHAIN=local go test -json -vet=off -count=1 -timeout 25m ./...",
        "source_commits": claims.get("hook_commits", []),
        "add_only": True,
    },
    "engines": [{"name": "goblvc", "path": "/verif/engine", "serves_properties": sorted(claimed), "kind_free_text": "verification-condition generator over go/ssa (x/tools v0.29.0) with Gobra-style //@ contracts; SMT-LIB obligations discharged by a portfolio of z3 4.8.12, z3 5.1.0, cvc5 1.0.3; counterexamples replayed on the real code with go test -overlay"}],
    "checks": checks,
    "not_applicable": na,
    "notes": claims.get("notes", ""),
}
json.dump(m, open(os.path.join(root, "MANIFEST.json"), "w"), indent=1)
print("MANIFEST.json: %d checks, %d not applicable" % (len(checks), len(na)))
