#!/usr/bin/env python3
"""Rewrites the seed table of DESIGN.md section 7 from seeded/RESULTS.tsv and the seeds' meta.json."""
import json, os, re
root = os.path.dirname(os.path.dirname(os.path.abspath(__file__)))
rows = []
for l in open(os.path.join(root, "seeded", "RESULTS.tsv")):
    f = l.rstrip("\n").split("\t")
    if len(f) < 5:
        continue
    seed, applies, rc, n, kind = f[:5]
    first = f[5] if len(f) > 5 else ""
    meta = json.load(open(os.path.join(root, "seeded", seed, "meta.json")))
    what = (meta.get("summary") or meta.get("description") or "").replace("|", "/").replace("\n", " ")[:150]
    prop = seed.rsplit("-", 1)[0]
    if applies == "-":
        res = "property not claimed (kept for later)"
    elif applies == "no":
        res = "patch no longer applies (overlaps a fix)"
    elif n == "0":
        res = "**missed**"
    else:
        m = re.search(r"obligation (\S+)", first)
        ob = m.group(1) if m else "?"
        res = "caught: %s VIOLATION(s), first `%s` (%s)" % (n, ob, "counterexample replayed on the real code" if kind == "replayed" else "no-failing-input-found")
    rows.append("| %s | %s | %s | %s |" % (seed, what, prop, res))
p = os.path.join(root, "DESIGN.md")
s = open(p).read()
head = "| seed | what it changes (needs) | property check | result |\n|---|---|---|---|\n"
i = s.index(head) + len(head)
j = s.index("\n\n", i)
s = s[:i] + "\n".join(rows) + s[j:]
open(p, "w").write(s)
print("seed table: %d rows, %d caught, %d missed" % (len(rows), sum("caught" in r for r in rows), sum("missed" in r for r in rows)))
