#!/bin/bash
# keepseed.sh <property> <n> <demo-dir-in-repo> [extra go test flags]
# Confirms a seeded change in a scratch worktree of /repo (HEAD): suite green with the
# patch, demo fails with it and passes without it; then stores it under /verif/seeded/<prop>-<n>/.
set -u
P=$1; N=$2; D=$3; shift 3
SRC=/tmp/seed/$P/out/$N
[ -d $SRC ] || SRC=/tmp/seed/$P-out/$N
if [ "$D" = auto ]; then D=$(head -1 $SRC/demo_test.go | sed -n 's|^// copy into: *||p' | sed 's|/$||'); [ -z "$D" ] && { echo "no copy-into comment"; exit 2; }; fi
WT=/tmp/seedcheck-$P-$N
export GOFLAGS=-mod=mod GOPROXY=off GOSUMDB=off GOTOOLCHAIN=local
git -C /repo worktree add -q --detach $WT HEAD || exit 2
cleanup() { git -C /repo worktree remove --force $WT >/dev/null 2>&1; }
trap cleanup EXIT
cd $WT
DEMO=$D/zz_seed_demo_test.go
cp $SRC/demo_test.go $DEMO
go test -vet=off -count=1 "$@" ./$D/ >/tmp/seedcheck-$P-$N.base.log 2>&1; BASE=$?
git apply $SRC/patch.diff || { echo "patch does not apply to HEAD"; exit 2; }
go test -vet=off -count=1 "$@" ./$D/ >/tmp/seedcheck-$P-$N.demo.log 2>&1; DEMORC=$?
rm -f $DEMO
go build ./... >/tmp/seedcheck-$P-$N.build.log 2>&1; BUILD=$?
go test -vet=off -count=1 ./... >/tmp/seedcheck-$P-$N.suite.log 2>&1; SUITE=$?
if [ $SUITE -ne 0 ]; then # internal/cli has a flaky ordering test: retry once
  go test -vet=off -count=1 ./... >/tmp/seedcheck-$P-$N.suite.log 2>&1; SUITE=$?
fi
echo "demo without patch rc=$BASE (want 0); demo with patch rc=$DEMORC (want !=0); build rc=$BUILD; suite with patch rc=$SUITE (want 0)"
if [ $BASE -eq 0 ] && [ $DEMORC -ne 0 ] && [ $BUILD -eq 0 ] && [ $SUITE -eq 0 ]; then
  mkdir -p /verif/seeded/$P-$N
  cp $SRC/patch.diff /verif/seeded/$P-$N/patch.diff
  cp $SRC/demo_test.go /verif/seeded/$P-$N/demo_test.go
  python3 - "$P" "$N" "$D" "$SRC/meta.json" <<'PY'
import json,sys
P,N,D,src=sys.argv[1:5]
try: m=json.load(open(src))
except Exception: m={}
m["property"]=P
m["demo_package_dir"]=D
m["confirmed_by_me"]=["scratch worktree of /repo HEAD: demo passes without the patch","demo fails with the patch applied","go build ./... and the full suite (go test -vet=off -count=1 ./...) pass with the patch applied"]
json.dump(m,open("/verif/seeded/%s-%s/meta.json"%(P,N),"w"),indent=1)
PY
  echo "kept /verif/seeded/$P-$N"
else
  echo "NOT kept"; tail -5 /tmp/seedcheck-$P-$N.suite.log
fi
