#!/bin/bash
# Re-runs one kept seed against its property's quick check and updates its row in seeded/RESULTS.tsv.
cd /verif
sd=$1; prop=${sd%-*}
[ -n "$(git -C /repo status --porcelain --untracked-files=no)" ] && { echo "repo dirty, abort"; exit 2; }
git -C /repo apply /verif/seeded/$sd/patch.diff || { echo "patch does not apply"; exit 2; }
log=$(timeout 900 ./bin/goblvc check $prop -q -noevidence 2>&1); rc=$?
git -C /repo checkout -q -- .
n=$(echo "$log" | grep -c "^VIOLATION")
first=$(echo "$log" | grep -A1 "^VIOLATION" | head -2 | tail -1 | cut -c1-160)
kind=$(echo "$log" | grep "^VIOLATION" | head -1 | grep -q "no-failing-input-found" && echo "no-input" || echo "replayed")
[ $n -eq 0 ] && kind="-"
python3 - "$sd" "$rc" "$n" "$kind" "$first" <<'PY'
import sys
sd,rc,n,kind,first=sys.argv[1:6]
p='/verif/seeded/RESULTS.tsv'
L=open(p).read().split('\n')
L=[("%s\tyes\t%s\t%s\t%s\t%s"%(sd,rc,n,kind,first)) if l.startswith(sd+'\t') else l for l in L]
open(p,'w').write('\n'.join(L))
PY
echo "$sd: rc=$rc violations=$n $kind"
