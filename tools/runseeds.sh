#!/bin/bash
# Applies every kept seeded change to /repo in turn, runs its property's quick check, undoes it.
# Writes /verif/seeded/RESULTS.tsv: seed, applies, exit code, #VIOLATION lines, first violation.
cd /verif
out=/verif/seeded/RESULTS.tsv
: > $out
claimed=$(python3 -c "import json;print(' '.join(c['property_id'] for c in json.load(open('MANIFEST.json'))['checks']))")
for d in $(ls -d seeded/C*-* | sort -V); do
  sd=$(basename $d); prop=${sd%-*}
  if ! echo " $claimed " | grep -q " $prop "; then echo -e "$sd\t-\t-\t-\tproperty not claimed" >> $out; continue; fi
  if [ -n "$(git -C /repo status --porcelain --untracked-files=no)" ]; then echo "repo dirty, abort"; exit 2; fi
  if git -C /repo apply --3way /verif/$d/patch.diff >/dev/null 2>&1 && [ -z "$(git -C /repo diff --name-only --diff-filter=U)" ]; then
    git -C /repo reset -q
    log=$(timeout 900 ./bin/goblvc check $prop -q -noevidence 2>&1); rc=$?
    n=$(echo "$log" | grep -c "^VIOLATION")
    first=$(echo "$log" | grep -A1 "^VIOLATION" | head -2 | tail -1 | cut -c1-160)
    kind=$(echo "$log" | grep "^VIOLATION" | head -1 | grep -q "no-failing-input-found" && echo "no-input" || echo "replayed")
    [ $n -eq 0 ] && kind="-"
    echo -e "$sd\tyes\t$rc\t$n\t$kind\t$first" >> $out
  else
    echo -e "$sd\tno\t-\t-\t-\tpatch no longer applies (overlaps a fix)" >> $out
  fi
  git -C /repo checkout -q -- . ; git -C /repo reset -q; git -C /repo checkout -q -- .
done
cat $out
