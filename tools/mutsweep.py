#!/usr/bin/env python3
"""Automatic mutation sweep: simple operator/constant mutants of the functions under contract,
each run through its property's quick check with the loader overlay (-mut); nothing is written
into /repo. Output: selftest/mutsweep.tsv (property, function, file:line, mutation, verdict).
A surviving mutant is either equivalent or shows a contract that is too weak: to be read by hand."""
import json, os, re, subprocess, sys, random, concurrent.futures
root = "/verif"
repo = "/repo"
props = [c["property_id"] for c in json.load(open(f"{root}/MANIFEST.json"))["checks"]]
only = sys.argv[1:]  # optional property ids
per_func = int(os.environ.get('MUT_PER_FUNC', '5'))
random.seed(int(os.environ.get('MUT_SEED', '1')))
outtsv = os.environ.get('MUT_OUT', f'{root}/selftest/mutsweep.tsv')
OPS = [(" < ", " <= "), (" <= ", " < "), (" > ", " >= "), (" >= ", " > "), (" == ", " != "), (" != ", " == "),
       (" + ", " - "), (" - ", " + "), (" * ", " + "), (" && ", " || "), (" || ", " && "), ("continue", "break")]
def funcs_of(pid):
    ev = json.load(open(f"{root}/evidence/{pid}.json"))
    out = []
    for f in ev["coverage"].get("functions_under_contract", []):
        if not f.get("all_discharged") or not f.get("file"):
            continue
        name = f["name"]
        m = re.search(r"\)?\.?([A-Za-z0-9_]+)$", name)
        out.append((name, m.group(1), f["file"]))
    return out
def body_lines(path, short):
    src = open(path).read().split("\n")
    pat = re.compile(r"^func (\([^)]*\) )?" + re.escape(short) + r"(\[[^\]]*\])?\(")
    res = []
    i = 0
    while i < len(src):
        if pat.match(src[i]):
            j = i + 1
            while j < len(src) and src[j] != "}":
                res.append(j)
                j += 1
            break
        i += 1
    return src, res
jobs = []
seenfn = set()
for pid in props:
    if pid == "C14" or (only and pid not in only):
        continue
    for name, short, rel in funcs_of(pid):
        if (name, rel) in seenfn:
            continue
        seenfn.add((name, rel))
        path = os.path.join(repo, rel)
        if rel.startswith("/") or not os.path.exists(path) or rel.endswith("_verif.go"):
            continue
        src, lines = body_lines(path, short)
        cands = []
        for ln in lines:
            text = src[ln]
            if text.strip().startswith("//") or src.count(text) != 1:
                continue
            code = text.split("//")[0]
            for a, b in OPS:
                if a in code and '"' not in code.split(a)[0][-3:]:
                    cands.append((ln, text, text.replace(a, b, 1), f"{a.strip()} -> {b.strip()}"))
            m = re.search(r"(?<![\w.\"])([0-9]{1,3})(?![\w.\"])", code)
            if m and "case" not in code:
                n = int(m.group(1))
                cands.append((ln, text, text[:m.start(1)] + str(n + 1) + text[m.end(1):], f"{n} -> {n+1}"))
        random.shuffle(cands)
        for ln, old, new, what in cands[:per_func]:
            jobs.append((pid, name, rel, ln + 1, old, new, what))
print(len(jobs), "mutants", file=sys.stderr)
def run(job):
    pid, name, rel, ln, old, new, what = job
    r = subprocess.run([f"{root}/bin/goblvc", "check", pid, "-q", "-noevidence", "-mut", f"{rel}::{old}::{new}"], capture_output=True, text=True)
    out = r.stdout + r.stderr
    if "engine error" in out and "VIOLATION" not in out:
        v = "does-not-compile" if ("load:" in out or "package load errors" in out) else "engine-error"
    elif "VIOLATION property=" in out:
        v = "caught"
    else:
        v = "survived"
    return (pid, name, f"{rel}:{ln}", what, v, new.strip()[:90])
with concurrent.futures.ThreadPoolExecutor(max_workers=3) as ex:
    res = list(ex.map(run, jobs))
with open(outtsv, "w") as f:
    for r in res:
        f.write("\t".join(r) + "\n")
import collections
c = collections.Counter(r[4] for r in res)
print(dict(c))
for r in res:
    if r[4] == "survived":
        print("SURVIVED", r[0], r[1], r[2], r[3], "|", r[5])
