#!/bin/bash
# Runs every claimed check (quick) on the current tree and validates MANIFEST + evidence.
cd /verif
[ -n "$(git -C /repo status --porcelain --untracked-files=no)" ] && echo "WARNING: /repo has uncommitted changes"
rc=0; bad=""
for id in $(python3 -c "import json;print(' '.join(c['property_id'] for c in json.load(open('MANIFEST.json'))['checks']))"); do
  out=$(./bin/goblvc check $id --tier quick 2>&1); r=$?
  echo "$out" | tail -1
  [ $r -ne 0 ] && { rc=1; bad="$bad $id"; echo "$out" | grep -v "^  " | head -10; }
done
python3-vt - <<'PY'
import json, jsonschema, glob
jsonschema.validate(json.load(open('/verif/MANIFEST.json')), json.load(open('/root/.vp/MANIFEST.schema.json')))
sch=json.load(open('/root/.vp/EVIDENCE.schema.json'))
m=json.load(open('/verif/MANIFEST.json'))
for c in m['checks']:
    e=json.load(open(c['evidence_file'])); jsonschema.validate(e, sch)
    cov=e['coverage']
    assert cov['obligations']==cov['discharged'], (c['property_id'],cov['obligations'],cov['discharged'])
print("manifest + evidence valid")
PY
[ $rc -ne 0 ] && echo "REFRESH FAILED for:$bad" || echo "REFRESH OK: all checks exit 0 on the current tree"
exit $rc
