package gobl_test

import (
	"encoding/json"
	"fmt"
	"testing"

	"github.com/invopop/gobl"
)

func tryE(name, data string) {
	defer func() {
		if r := recover(); r != nil {
			fmt.Println(name, "PANIC:", r)
		}
	}()
	env := new(gobl.Envelope)
	if err := json.Unmarshal([]byte(data), env); err != nil {
		fmt.Println(name, "UNMARSHAL:", err)
		return
	}
	err := env.Calculate()
	if err == nil {
		err = env.Validate()
	}
	fmt.Println(name, "RETURNED:", err != nil)
}

func TestProbeMore(t *testing.T) {
	h := `{"uuid":"0190e063-7676-7000-8c58-2db7172a4e58","dig":{"alg":"sha256","val":"x"}}`
	inv := func(extra, lines string) string {
		return `{"$schema":"https://gobl.org/draft-0/envelope","head":` + h + `,"doc":{"$schema":"https://gobl.org/draft-0/bill/invoice","regime":"ES","currency":"EUR","issue_date":"2024-01-01","series":"A","code":"1","supplier":{"name":"A","tax_id":{"country":"ES","code":"B98602642"}}` + extra + `,"lines":` + lines + `}}`
	}
	line := `[{"quantity":"1","item":{"name":"x","price":"10.00"},"taxes":[{"cat":"VAT","rate":"standard"}]}]`
	tryE("customer-rates-customer-no-taxid", inv(`,"$tags":["customer-rates"],"customer":{"name":"B"}`, line))
	tryE("customer-rates-discount-null-taxes", inv(`,"$tags":["customer-rates"],"customer":{"name":"B","tax_id":{"country":"FR","code":"39356000000"}},"discounts":[{"amount":"1.00"}],"charges":[{"amount":"1.00"}]`, line))
	tryE("exchange-rates-null", inv(`,"exchange_rates":[null]`, line))
	tryE("substituted-null", inv(``, `[{"quantity":"1","item":{"name":"x","price":"10.00"},"substituted":[null]}]`))
	tryE("line-charges-null", inv(``, `[{"quantity":"1","item":{"name":"x","price":"10.00"},"charges":[null]}]`))
	tryE("tax-null", inv(`,"tax":null`, line))
	tryE("item-null", inv(``, `[{"quantity":"1","item":null}]`))
	tryE("customer-null-addresses", inv(`,"customer":{"name":"B","addresses":[null],"emails":[null],"telephones":[null],"identities":[null],"inboxes":[null]}`, line))
	tryE("supplier-people-null", inv(`,"customer":{"name":"B","people":[null],"websites":[null],"registration":null}`, line))
	tryE("payment-keys", inv(`,"payment":{"payee":null,"terms":null,"instructions":null,"advances":[]}`, line))
	tryE("delivery-null", inv(`,"delivery":{"receiver":null,"identities":[null]}`, line))
	tryE("ordering-null", inv(`,"ordering":{"contracts":[null],"purchases":[null],"seller":null}`, line))
	tryE("totals-given", inv(`,"totals":{"sum":"1","total":"1","tax":"0","total_with_tax":"1","payable":"1","taxes":{"categories":[null]}}`, line))
}
