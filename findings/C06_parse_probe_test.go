package num

import "testing"

func TestGoblvcProbeParse(t *testing.T) {
	for _, s := range []string{"+5", "--5", "1.+5", "0.-5", "9223372036854775807.9", "1.0000000000000000000"} {
		a, err := AmountFromString(s)
		t.Logf("%q -> %v err=%v", s, a.String(), err)
		if err == nil {
			t.Errorf("%q accepted", s)
		}
	}
	for _, s := range []string{"5", "-5", "1.05", "-0.05", "9223372036854775807", "922337203685477580.7"} {
		if _, err := AmountFromString(s); err != nil {
			t.Errorf("%q rejected: %v", s, err)
		}
	}
}
