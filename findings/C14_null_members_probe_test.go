package gobl_test

import (
	"encoding/json"
	"fmt"
	"runtime"
	"strings"
	"testing"

	"github.com/invopop/gobl"
)

func tryEnv(name, data string) {
	defer func() {
		if r := recover(); r != nil {
			buf := make([]byte, 4096)
			n := runtime.Stack(buf, false)
			lines := strings.Split(string(buf[:n]), "\n")
			where := ""
			for i, l := range lines {
				if strings.HasPrefix(l, "panic(") && i+2 < len(lines) {
					where = lines[i+2] + " " + strings.TrimSpace(lines[i+3])
					break
				}
			}
			fmt.Println(name, "PANIC at", where)
		}
	}()
	env := new(gobl.Envelope)
	if err := json.Unmarshal([]byte(data), env); err != nil {
		fmt.Println(name, "UNMARSHAL:", err)
		return
	}
	err := env.Calculate()
	if err == nil {
		err = env.Validate()
	}
	fmt.Println(name, "RETURNED:", err != nil)
}

func TestProbeNullMembers(t *testing.T) {
	doc := func(extra string) string {
		return `{"$schema":"https://gobl.org/draft-0/bill/invoice","regime":"ES","currency":"EUR","issue_date":"2024-01-01","series":"A","code":"1","supplier":{"name":"A","tax_id":{"country":"ES","code":"B98602642"}},"customer":{"name":"B","tax_id":{"country":"ES","code":"54387763P"}},"lines":[{"quantity":"1","item":{"name":"x","price":"10.00"},"taxes":[{"cat":"VAT","rate":"standard"}]}]` + extra + `}`
	}
	envl := func(head, d string) string {
		return `{"$schema":"https://gobl.org/draft-0/envelope","head":` + head + `,"doc":` + d + `}`
	}
	h := `{"uuid":"0190e063-7676-7000-8c58-2db7172a4e58","dig":{"alg":"sha256","val":"x"}}`
	tryEnv("stamps-null", envl(`{"uuid":"0190e063-7676-7000-8c58-2db7172a4e58","dig":{"alg":"sha256","val":"x"},"stamps":[null]}`, doc("")))
	tryEnv("links-null", envl(`{"uuid":"0190e063-7676-7000-8c58-2db7172a4e58","dig":{"alg":"sha256","val":"x"},"links":[null]}`, doc("")))
	tryEnv("complements-null", envl(h, doc(`,"complements":[null]`)))
	tryEnv("notes-null", envl(h, doc(`,"notes":[null]`)))
	tryEnv("due-dates-null", envl(h, doc(`,"payment":{"terms":{"key":"due-date","due_dates":[null]}}`)))
	tryEnv("instructions-null", envl(h, doc(`,"payment":{"instructions":{"key":"credit-transfer","credit_transfer":[null]}}`)))
	tryEnv("customer-rates-nocustomer", envl(h, `{"$schema":"https://gobl.org/draft-0/bill/invoice","$tags":["customer-rates"],"regime":"ES","currency":"EUR","issue_date":"2024-01-01","series":"A","code":"1","supplier":{"name":"A","tax_id":{"country":"ES","code":"B98602642"}},"lines":[{"quantity":"1","item":{"name":"x","price":"10.00"},"taxes":[{"cat":"VAT","rate":"standard"}]}]}`))
	tryEnv("identities-null", envl(h, doc(`,"ordering":{"identities":[null]}`)))
	tryEnv("breakdown-null", envl(h, `{"$schema":"https://gobl.org/draft-0/bill/invoice","regime":"ES","currency":"EUR","issue_date":"2024-01-01","series":"A","code":"1","supplier":{"name":"A","tax_id":{"country":"ES","code":"B98602642"}},"lines":[{"quantity":"1","item":{"name":"x","price":"10.00"},"breakdown":[null]}]}`))
	tryEnv("exchange-rates-null", envl(h, doc(`,"exchange_rates":[null]`)))
	tryEnv("alt-prices-null", envl(h, `{"$schema":"https://gobl.org/draft-0/bill/invoice","regime":"ES","currency":"EUR","issue_date":"2024-01-01","series":"A","code":"1","supplier":{"name":"A","tax_id":{"country":"ES","code":"B98602642"}},"lines":[{"quantity":"1","item":{"name":"x","price":"10.00","currency":"USD","alt_prices":[null]}}]}`))
}
