package gobl_test

import (
	"encoding/json"
	"fmt"
	"strings"
	"testing"

	"github.com/invopop/gobl"
	"github.com/invopop/gobl/dsig"
	"github.com/invopop/gobl/note"
)

func TestProbeSignedNullStamp(t *testing.T) {
	msg := &note.Message{Content: "hello"}
	env, err := gobl.Envelop(msg)
	if err != nil {
		fmt.Println("ENVELOP", err)
		return
	}
	key := dsig.NewES256Key()
	if err := env.Sign(key); err != nil {
		fmt.Println("SIGN", err)
		return
	}
	data, _ := json.Marshal(env)
	s := strings.Replace(string(data), `"head":{`, `"head":{"stamps":[null,null],`, 1)
	env2 := new(gobl.Envelope)
	if err := json.Unmarshal([]byte(s), env2); err != nil {
		fmt.Println("UNMARSHAL", err)
		return
	}
	defer func() {
		if r := recover(); r != nil {
			fmt.Println("PANIC:", r)
		}
	}()
	fmt.Println("RETURNED:", env2.Validate())
}
