package bill_test

import (
	"encoding/json"
	"fmt"
	"testing"

	"github.com/invopop/gobl/bill"
)

func tryInvoice(data string) {
	inv := new(bill.Invoice)
	if err := json.Unmarshal([]byte(data), inv); err != nil {
		fmt.Println("UNMARSHAL:", err)
		return
	}
	defer func() {
		if r := recover(); r != nil {
			fmt.Println("PANIC:", r)
		}
	}()
	fmt.Println("RETURNED:", inv.Calculate())
}

func TestProbeNilInvoiceRows(t *testing.T) {
	base := `"regime":"ES","currency":"EUR","issue_date":"2024-01-01","supplier":{"name":"A","tax_id":{"country":"ES","code":"B98602642"}}`
	tryInvoice(`{` + base + `,"lines":[null]}`)
	tryInvoice(`{` + base + `,"lines":[{"quantity":"1","item":{"name":"x","price":"10.00"}}],"discounts":[null]}`)
	tryInvoice(`{` + base + `,"lines":[{"quantity":"1","item":{"name":"x","price":"10.00"}}],"charges":[null]}`)
	tryInvoice(`{` + base + `,"lines":[{"quantity":"1","item":{"name":"x","price":"10.00"},"discounts":[null]}]}`)
	tryInvoice(`{` + base + `,"lines":[{"quantity":"1","item":{"name":"x","price":"10.00"}}],"payment":{"advances":[null]}}`)
	tryInvoice(`{` + base + `,"lines":[{"quantity":"1","item":{"name":"x","price":"10.00"}}],"preceding":[null]}`)
}
func TestProbeNilPaymentLine(t *testing.T) {
	data := `{"regime":"ES","currency":"EUR","issue_date":"2024-01-01","type":"receipt","supplier":{"name":"A","tax_id":{"country":"ES","code":"B98602642"}},"lines":[null]}`
	p := new(bill.Payment)
	if err := json.Unmarshal([]byte(data), p); err != nil {
		fmt.Println("UNMARSHAL:", err)
		return
	}
	func() {
		defer func() {
			if r := recover(); r != nil {
				fmt.Println("PANIC:", r)
			}
		}()
		fmt.Println("RETURNED:", p.Calculate())
	}()
}
