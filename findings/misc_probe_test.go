package gobl_test

import (
	"encoding/json"
	"fmt"
	"strings"
	"testing"

	"github.com/invopop/gobl/bill"
	"github.com/invopop/gobl/c14n"
)

func guard(name string, f func()) {
	defer func() {
		if r := recover(); r != nil {
			fmt.Println(name, "PANIC:", r)
		}
	}()
	f()
}

func TestProbeMisc(t *testing.T) {
	base := `"regime":"ES","currency":"EUR","issue_date":"2024-01-01","supplier":{"name":"A","tax_id":{"country":"ES","code":"B98602642"}}`
	mk := func(extra string) *bill.Invoice {
		inv := new(bill.Invoice)
		if err := json.Unmarshal([]byte(`{`+base+extra+`}`), inv); err != nil {
			fmt.Println("UNMARSHAL", err)
		}
		return inv
	}
	guard("remove-included-uncalculated", func() {
		inv := mk(`,"tax":{"prices_include":"VAT"},"lines":[{"quantity":"1","item":{"name":"x","price":"10.00"},"taxes":[{"cat":"VAT","rate":"standard"}]}]`)
		err := inv.RemoveIncludedTaxes()
		fmt.Println("remove-included-uncalculated RETURNED", err)
	})
	guard("customer-rates-no-taxid", func() {
		inv := mk(`,"$tags":["customer-rates"],"customer":{"name":"B"},"lines":[{"quantity":"1","item":{"name":"x","price":"10.00"},"taxes":[{"cat":"VAT","rate":"standard"}]}]`)
		fmt.Println("customer-rates-no-taxid RETURNED", inv.Calculate())
	})
	guard("invert-uncalculated", func() {
		inv := mk(`,"lines":[{"quantity":"1","item":{"name":"x","price":"10.00"}}]`)
		fmt.Println("invert-uncalculated RETURNED", inv.Invert())
	})
	for _, in := range []string{`1e400`, `-0.0`, `1E-400`, `{"a":1e999}`, `[1.5e-7]`, `"\ud800"`, `{"a":"\u0000"}`, `123456789012345678901234567890`} {
		in := in
		guard("c14n "+in, func() {
			out, err := c14n.CanonicalJSON(strings.NewReader(in))
			fmt.Println("c14n", in, "->", string(out), err)
		})
	}
}
