package nl

import (
	"fmt"
	"testing"

	"github.com/invopop/gobl/cbc"
)

func TestProbeNL(t *testing.T) {
	n := 0
	for v := 10000000; v < 10000400 && n < 3; v++ {
		c := cbc.Code(fmt.Sprintf("+%08dB01", v))
		if err := validateTaxCode(c); err == nil {
			fmt.Println("ACCEPTED", c)
			n++
		}
	}
	for _, c := range []cbc.Code{"123456782B+1", "123456782B-1", "123456782B01", "123456782B 1"} {
		fmt.Println(c, validateTaxCode(c))
	}
}
