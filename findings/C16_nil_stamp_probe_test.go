package bill_test

import (
	"encoding/json"
	"fmt"
	"testing"

	"github.com/invopop/gobl/bill"
)

// A correction request whose options carry a null stamp ("stamps":[null]) makes
// validatePrecedingData dereference a nil *head.Stamp when the regime or addon
// requires a stamp (CO/DIAN, MX, GR, PL): the library panics instead of refusing.
func TestProbeNilStampInCorrectionOptions(t *testing.T) {
	i := testInvoiceCOForCorrection(t)
	func() {
		defer func() {
			if r := recover(); r != nil {
				fmt.Println("PANIC:", r)
			}
		}()
		err := i.Correct(bill.WithData(json.RawMessage(`{"type":"credit-note","stamps":[null],"reason":"x"}`)))
		fmt.Println("RETURNED:", err)
	}()
}
