package tax

import (
	"testing"

	"github.com/invopop/gobl/num"
)

func TestGoblvcProbeNegate(t *testing.T) {
	s := num.MakeAmount(52, 2)
	tt := &Total{
		Categories: []*CategoryTotal{{
			Code: "VAT", Amount: num.MakeAmount(2100, 2), Surcharge: &s,
			Rates: []*RateTotal{{
				Base: num.MakeAmount(10000, 2), Amount: num.MakeAmount(2100, 2), Percent: num.NewPercentage(21, 2),
				Surcharge: &RateTotalSurcharge{Percent: num.MakePercentage(52, 4), Amount: num.MakeAmount(52, 2)},
			}},
		}},
		Sum: num.MakeAmount(2152, 2),
	}
	n := tt.Negate()
	t.Logf("cat surcharge %s (src %s), row surcharge %s (src %s)", n.Categories[0].Surcharge.String(), tt.Categories[0].Surcharge.String(), n.Categories[0].Rates[0].Surcharge.Amount.String(), tt.Categories[0].Rates[0].Surcharge.Amount.String())
	if n.Categories[0].Surcharge.String() != "-0.52" || n.Categories[0].Rates[0].Surcharge.Amount.String() != "-0.52" {
		t.Fatal("surcharges not negated")
	}
	if tt.Categories[0].Surcharge.String() != "0.52" || tt.Categories[0].Rates[0].Surcharge.Amount.String() != "0.52" {
		t.Fatal("operand altered")
	}
}
